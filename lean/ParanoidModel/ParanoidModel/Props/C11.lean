/-
Props/C11.lean — "Elliptic-curve arithmetic is the group law on every input".
Property theorems only; helper lemmas live in Proofs/Ec*.lean.

Setting. `c : Curve` are the constructor arguments of `EcCurve`; points are the Python values
(`Pt.inf` or `Pt.aff x y` with UNREDUCED integers). The specification is Mathlib's group
`(W c).Point` of the Weierstrass curve `W c : y² = x³ + a x + b` over `ZMod c.p`, and
`toPoint c : Pt → (W c).Point` is the abstraction function (reduce the coordinates mod `p`).
Hypotheses: `[Fact c.p.Prime]` (for the named curves: PROVED by kernel-checked Pratt certificates,
`curve_primes_certified` / Props/C11Primes.lean, except for the numbers in `curve_primes_uncertified` —
currently none —, which would only be validated per run by gmpy2.is_prime, harness/corr/c11.py) and
`c.Good` (`p ≠ 2`, `4a³ + 27b² ≢ 0`), which `generator_of_paramsOK` derives from the evaluated check
`paramsOK` for the nine named curves. Every theorem is for ALL on-curve inputs: ∞, equal points,
opposite points, coordinates that are only congruent mod `p`, every integer scalar.

The model is the code WITH fixes/D3-ec-add-double.diff; `*_pinned_fails*` are the kernel-checked
counter-examples for the pinned `Add` / `Double` / `BatchDouble`.
-/
import ParanoidModel.Proofs.EcCurves
import ParanoidModel.Proofs.EcOrder
import ParanoidModel.Proofs.EcTable
import ParanoidModel.Props.C11Primes
namespace Paranoid.C11
open Paranoid Paranoid.Ec WeierstrassCurve

section refinement
variable (c : Curve) [Fact (Nat.Prime c.p)]

/-- OnCurve is the curve equation over `ZMod p`. -/
theorem onCurve_iff_equation (x y : Int) :
    onCurve c (.aff x y) = true ↔ (W c).Equation (x : ZMod c.p) (y : ZMod c.p) :=
  onCurve_aff_iff c x y

/-- Negate. -/
theorem negate_refines (hc : c.Good) (P : Pt) (hP : onCurve c P = true) :
    onCurve c (negate c P) = true ∧ toPoint c (negate c P) = - toPoint c P :=
  ⟨negate_onCurve c P hP, Ec.negate_refines c hc P hP⟩

/-- Double: never raises, stays on the curve, is `P + P` — including ∞ and 2-torsion points. -/
theorem double_refines (hc : c.Good) (P : Pt) (hP : onCurve c P = true) :
    ∃ R, double c P = .ok R ∧ onCurve c R = true ∧ toPoint c R = toPoint c P + toPoint c P :=
  Ec.double_refines c hc P hP

/-- Add: never raises, stays on the curve, is the group law — for ∞, `P = Q`, `P = -Q` and for
coordinates that are only congruent mod `p`. -/
theorem add_refines (hc : c.Good) (P Q : Pt) (hP : onCurve c P = true) (hQ : onCurve c Q = true) :
    ∃ R, add c P Q = .ok R ∧ onCurve c R = true ∧ toPoint c R = toPoint c P + toPoint c Q :=
  Ec.add_refines c hc P Q hP hQ

/-- Subtract. -/
theorem subtract_refines (hc : c.Good) (P Q : Pt) (hP : onCurve c P = true) (hQ : onCurve c Q = true) :
    ∃ R, subtract c P Q = .ok R ∧ onCurve c R = true ∧ toPoint c R = toPoint c P - toPoint c Q :=
  Ec.subtract_refines c hc P Q hP hQ

/-- the patched Add / Double / Subtract never raise, for ANY integer coordinates (on the curve or
not, reduced or not), when `p` is an odd prime. -/
theorem add_double_total (h2 : c.p ≠ 2) (P Q : Pt) :
    (∃ R, add c P Q = .ok R) ∧ (∃ R, double c P = .ok R) ∧ (∃ R, subtract c P Q = .ok R) :=
  ⟨add_total c h2 P Q, double_total c h2 P, subtract_total c h2 P Q⟩

/-- AffineToJacobian produces a valid representation of the same group element. -/
theorem affineToJ_refines (hc : c.Good) (P : Pt) (hP : onCurve c P = true) :
    JRep c (affineToJ P) (toPoint c P) := jrep_affineToJ c hc P hP

/-- JacobianToAffine of a valid representation never raises and returns the represented element. -/
theorem jToAffine_refines {P : JPt} {A : (W c).Point} (h : JRep c P A) :
    ∃ R, jToAffine c P = .ok R ∧ onCurve c R = true ∧ toPoint c R = A := Ec.jToAffine_refines c h

/-- DoubleJacobian, both branches of the `a == -3` test, `z == 0`, `y == 0` and `y ≡ 0 (mod p)`. -/
theorem doubleJ_refines (hc : c.Good) {P : JPt} {A : (W c).Point} (h : JRep c P A) :
    JRep c (doubleJ c P) (A + A) := Ec.doubleJ_refines c hc h

/-- AddJacobian: ∞ on either side, equal points (falls into DoubleJacobian), opposite points. -/
theorem addJ_refines (hc : c.Good) {P Q : JPt} {A B : (W c).Point} (hP : JRep c P A) (hQ : JRep c Q B) :
    JRep c (addJ c P Q) (A + B) := Ec.addJ_refines c hc hP hQ

/-- `jacobian_refines` in affine terms:
`φ (jToAffine (addJ P Q)) = φ (jToAffine P) + φ (jToAffine Q)` and the same for `doubleJ`. -/
theorem jacobian_refines (hc : c.Good) {P Q : JPt} {A B : (W c).Point} (hP : JRep c P A)
    (hQ : JRep c Q B) :
    ∃ R D P' Q', jToAffine c (addJ c P Q) = .ok R ∧ jToAffine c (doubleJ c P) = .ok D ∧
      jToAffine c P = .ok P' ∧ jToAffine c Q = .ok Q' ∧
      toPoint c R = toPoint c P' + toPoint c Q' ∧ toPoint c D = toPoint c P' + toPoint c P' := by
  obtain ⟨R, hR, _, hR'⟩ := Ec.jToAffine_refines c (Ec.addJ_refines c hc hP hQ)
  obtain ⟨D, hD, _, hD'⟩ := Ec.jToAffine_refines c (Ec.doubleJ_refines c hc hP)
  obtain ⟨P', hP1, _, hP2⟩ := Ec.jToAffine_refines c hP
  obtain ⟨Q', hQ1, _, hQ2⟩ := Ec.jToAffine_refines c hQ
  exact ⟨R, D, P', Q', hR, hD, hP1, hQ1, by rw [hR', hP2, hQ2], by rw [hD', hP2]⟩

/-- the same without mentioning `JRep`: for ALL triples that JacobianToAffine itself accepts as
on-curve points (it raises on `(0,0,0)` and on `z ≡ 0 (mod p)`, `z ≠ 0`), AddJacobian /
DoubleJacobian followed by JacobianToAffine is the group law. -/
theorem jacobian_refines_affine (hc : c.Good) (P Q : JPt) (P' Q' : Pt)
    (hP : jToAffine c P = .ok P') (hQ : jToAffine c Q = .ok Q')
    (hP' : onCurve c P' = true) (hQ' : onCurve c Q' = true) :
    ∃ R D, jToAffine c (addJ c P Q) = .ok R ∧ toPoint c R = toPoint c P' + toPoint c Q' ∧
      jToAffine c (doubleJ c P) = .ok D ∧ toPoint c D = toPoint c P' + toPoint c P' := by
  have h1 := jrep_of_jToAffine c hc hP hP'
  have h2 := jrep_of_jToAffine c hc hQ hQ'
  obtain ⟨R, hR, _, hR'⟩ := Ec.jToAffine_refines c (Ec.addJ_refines c hc h1 h2)
  obtain ⟨D, hD, _, hD'⟩ := Ec.jToAffine_refines c (Ec.doubleJ_refines c hc h1)
  exact ⟨R, D, hR, hR', hD, hD'⟩

/-- MultiplyAffine is `k • P` for every integer `k`. -/
theorem multiplyAffine_zsmul (hc : c.Good) (P : Pt) (k : Int) (hP : onCurve c P = true) :
    ∃ R, multiplyAffine c P k = .ok R ∧ onCurve c R = true ∧ toPoint c R = k • toPoint c P :=
  Ec.multiplyAffine_zsmul c hc P k hP

/-- Multiply (Jacobian ladder) is `k • P` for every integer `k`: zero, negative, multiples of the
group order, larger than the group order. -/
theorem multiply_nsmul (hc : c.Good) (P : Pt) (k : Int) (hP : onCurve c P = true) :
    ∃ R, multiply c P k = .ok R ∧ onCurve c R = true ∧ toPoint c R = k • toPoint c P :=
  Ec.multiply_zsmul c hc P k hP

/-- IsValidPublicKey. -/
theorem isValidPublicKey_spec (hc : c.Good) (P : Pt) :
    ∃ b, isValidPublicKey c P = .ok b ∧
      (b = true ↔ onCurve c P = true ∧ P ≠ .inf ∧ (1 < c.h → c.n • toPoint c P = 0) ∧
        ∃ x y, P = .aff x y ∧ 0 ≤ x ∧ x ≤ (c.p : Int) - 1 ∧ 0 ≤ y ∧ y ≤ (c.p : Int) - 1) :=
  Ec.isValidPublicKey_spec c hc P

/-- BatchInverse: entry `i` is `gmpy.invert(values[i], mod)` when `values[i]` is neither `None`
nor `0`, else `None`; the call raises (ZeroDivisionError) exactly when such an entry is `≡ 0`;
the final `raise ArithmeticError("failed invariant")` is unreachable. -/
theorem batchInverse_spec (vs : List (Option Int)) :
    batchInverse c vs = mapE (invEntry c) vs := Ec.batchInverse_spec c vs

theorem batchInverse_never_arithmeticError (vs : List (Option Int)) :
    batchInverse c vs ≠ .error .arithmeticError := by
  rw [Ec.batchInverse_spec]
  by_cases h : AllInvertible c vs
  · rw [mapE_invEntry_ok c vs h]; exact fun h => by cases h
  · rw [mapE_invEntry_err c vs h]; exact fun h => by cases h

/-- every batched operation is the list map of the scalar one, for ALL lists (no on-curve
hypothesis: any mixture of ∞, equal, opposite, duplicate, unreduced and off-curve points). -/
theorem batchAddList_eq_map (ps qs : List Pt) :
    batchAddList c ps qs =
      if ps.length ≠ qs.length then .error .valueError
      else mapE (fun pq : Pt × Pt => add c pq.1 pq.2) (ps.zip qs) := Ec.batchAddList_eq_map c ps qs

theorem batchDouble_eq_map (ps : List Pt) : batchDouble c ps = mapE (double c) ps :=
  Ec.batchDouble_eq_map c ps

theorem batchAdd_eq_map (P : Pt) (qs : List Pt) : batchAdd c P qs = mapE (add c P) qs :=
  Ec.batchAdd_eq_map c P qs

theorem batchAddX_eq_map (P : Pt) (qs : List Pt) : batchAddX c P qs = mapE (addX c P) qs :=
  Ec.batchAddX_eq_map c P qs

theorem batchAddSubtractX_eq_map (P : Pt) (qs : List Pt) :
    batchAddSubtractX c P qs =
      match mapE (addSubX c P) qs with
      | .error e => .error e
      | .ok l => .ok (l.map Prod.fst, l.map Prod.snd) := Ec.batchAddSubtractX_eq_map c P qs

/-- BatchJacobianToAffine / BatchJacobianToX: map of JacobianToAffine for every list without the
invalid triple `(0,0,0)` (scalar: ValueError, batched: INFINITY). -/
theorem batchJToAffine_eq_map (ps : List JPt) (h000 : ∀ P ∈ ps, ¬(P.x = 0 ∧ P.y = 0 ∧ P.z = 0)) :
    batchJToAffine c ps = mapE (jToAffine c) ps := Ec.batchJToAffine_eq_map c ps h000

theorem batchJToX_eq_map (ps : List JPt) (h000 : ∀ P ∈ ps, ¬(P.x = 0 ∧ P.y = 0 ∧ P.z = 0)) :
    batchJToX c ps = mapE (jToX c) ps := Ec.batchJToX_eq_map c ps h000

/-- `mapE` is `List.mapM` in the `Except` monad. -/
theorem mapE_is_mapM {α β} (f : α → Except PyErr β) (l : List α) : mapE f l = l.mapM f :=
  mapE_eq_mapM f l

/-- comb identity of BatchMultiplyG: `Σ_{i<steps} 2^i · ((x >> i) & mask) = x mod 2^(steps·cnt)`. -/
theorem comb_identity (s : Nat) (hs : 0 < s) (cnt x : Nat) :
    sumTo (combWindow (combMaskAux s cnt 0) x) s = x % (2 ^ s) ^ cnt := Ec.comb_identity s hs cnt x

/-- BatchMultiplyG, for EVERY cache content satisfying the cache invariant `cache[k] = k • G` and
every list of Python ints: succeeds, entry `j` is `(scalars[j] mod n) • G`; the returned cache
extends the old one and satisfies the invariant again. -/
theorem batchMultiplyG_spec (hc : c.Good) (hG : onCurve c c.g = true) (hn : 0 < c.n)
    (cache : Cache) (hcache : CacheOK c cache) (scalars : List Int) :
    ∃ rs cache', batchMultiplyG c cache scalars = .ok (rs, cache') ∧ CacheOK c cache' ∧
      cache <:+ cache' ∧
      List.Forall₂ (fun P (s : Int) => RepG c P (s % (c.n : Int)).toNat) rs scalars :=
  Ec.batchMultiplyG_spec c hc hG hn cache hcache scalars

/-- … hence `batchMultiplyG ss = ss.map (· • G)` when `n • G = 0`. -/
theorem batchMultiplyG_zsmul (hc : c.Good) (hG : onCurve c c.g = true) (hn : 0 < c.n)
    (hord : c.n • toPoint c c.g = 0) (cache : Cache) (hcache : CacheOK c cache) (scalars : List Int) :
    ∃ rs cache', batchMultiplyG c cache scalars = .ok (rs, cache') ∧ CacheOK c cache' ∧
      List.Forall₂ (fun P (s : Int) => onCurve c P = true ∧ toPoint c P = s • toPoint c c.g)
        rs scalars := Ec.batchMultiplyG_zsmul c hc hG hn hord cache hcache scalars

/-- PointSequence. -/
theorem pointSequence_spec (hc : c.Good) (base : Pt) (hbase : onCurve c base = true) (n : Nat)
    (hn : 0 < n) :
    ∃ rs, pointSequence c base n = .ok rs ∧
      List.Forall₂ (fun R (i : Nat) => onCurve c R = true ∧ toPoint c R = i • toPoint c base ∧ Reduced c R)
        rs (List.range n) := Ec.pointSequence_spec c hc base hbase n hn

/-- PointTable for every value `m ≥ 1` of the float oracle `int(math.sqrt(n))`. -/
theorem pointTable_spec (hc : c.Good) (base : Pt) (hbase : onCurve c base = true) (n m : Nat)
    (hn : 0 < n) (hm : 0 < m) :
    ∃ t, pointTable c base n m = .ok t ∧ n ≤ (n + m - 1) / m * m ∧
      (∀ k v, t.get? k = some v → v < (n + m - 1) / m * m ∧ xKey c (v • toPoint c base) = k) ∧
      (∀ v, v < (n + m - 1) / m * m → ∃ v', t.get? (xKey c (v • toPoint c base)) = some v') :=
  Ec.pointTable_spec c hc base hbase n m hn hm

/-- the evaluated parameter check gives the hypotheses used above and the order of `G`. -/
theorem generator_of_paramsOK (h : c.paramsOK = true) :
    c.Good ∧ onCurve c c.g = true ∧ toPoint c c.g ≠ 0 ∧ c.n • toPoint c c.g = 0 ∧ 0 < c.n ∧
      (Nat.Prime c.n → addOrderOf (toPoint c c.g) = c.n) := Ec.generator_of_paramsOK c h

end refinement

/-! ### the nine named curves, on the constants regenerated from `ec_util.CURVE_FACTORY`
(`paramsOK`: `p > 3` odd, `n > 1`, `h = 1`, `4a³+27b² ≢ 0`, `G` reduced, on the curve, `≠ ∞`,
`n·G = ∞` with the model's own `multiply`; all by `decide +kernel`) -/

theorem secp256r1_params : secp256r1.paramsOK = true := secp256r1_paramsOK
theorem secp384r1_params : secp384r1.paramsOK = true := secp384r1_paramsOK
theorem secp192r1_params : secp192r1.paramsOK = true := secp192r1_paramsOK
theorem secp224r1_params : secp224r1.paramsOK = true := secp224r1_paramsOK
theorem secp521r1_params : secp521r1.paramsOK = true := secp521r1_paramsOK
theorem secp256k1_params : secp256k1.paramsOK = true := secp256k1_paramsOK
theorem brainpoolP256r1_params : brainpoolP256r1.paramsOK = true := brainpoolP256r1_paramsOK
theorem brainpoolP384r1_params : brainpoolP384r1.paramsOK = true := brainpoolP384r1_paramsOK
theorem brainpoolP512r1_params : brainpoolP512r1.paramsOK = true := brainpoolP512r1_paramsOK

/-! ### primality of the curve constants is not a hypothesis: kernel-checked Pratt certificates
(Proofs/Pratt.lean, Proofs/PrattCurves.lean, Props/C11Primes.lean) for 18 of the 18 numbers. Not
certified (`C11Primes.uncertified`): none. -/

theorem curve_primes_certified :
    Nat.Prime secp256r1.p ∧ Nat.Prime secp256r1.n ∧
    Nat.Prime secp384r1.p ∧ Nat.Prime secp384r1.n ∧
    Nat.Prime secp192r1.p ∧ Nat.Prime secp192r1.n ∧
    Nat.Prime secp224r1.p ∧ Nat.Prime secp224r1.n ∧
    Nat.Prime secp521r1.p ∧ Nat.Prime secp521r1.n ∧
    Nat.Prime secp256k1.p ∧ Nat.Prime secp256k1.n ∧
    Nat.Prime brainpoolP256r1.p ∧ Nat.Prime brainpoolP256r1.n ∧
    Nat.Prime brainpoolP384r1.p ∧ Nat.Prime brainpoolP384r1.n ∧
    Nat.Prime brainpoolP512r1.p ∧ Nat.Prime brainpoolP512r1.n :=
  ⟨C11Primes.secp256r1_p_prime, C11Primes.secp256r1_n_prime,
   C11Primes.secp384r1_p_prime, C11Primes.secp384r1_n_prime,
   C11Primes.secp192r1_p_prime, C11Primes.secp192r1_n_prime,
   C11Primes.secp224r1_p_prime, C11Primes.secp224r1_n_prime,
   C11Primes.secp521r1_p_prime, C11Primes.secp521r1_n_prime,
   C11Primes.secp256k1_p_prime, C11Primes.secp256k1_n_prime,
   C11Primes.brainpoolP256r1_p_prime, C11Primes.brainpoolP256r1_n_prime,
   C11Primes.brainpoolP384r1_p_prime, C11Primes.brainpoolP384r1_n_prime,
   C11Primes.brainpoolP512r1_p_prime, C11Primes.brainpoolP512r1_n_prime⟩

/-- the numbers that remain a hypothesis are exactly those the regenerated certificate table
reports as not certified. -/
theorem curve_primes_uncertified :
    (Consts.prattStatus.filter fun t => !t.2.2.1).map (fun t => (t.1, t.2.1)) =
      [] := C11Primes.uncertified_complete

/-- hypothesis-free: on the 9 curves with both numbers certified, `G` has order exactly `n` in
Mathlib's group of the elliptic curve `W c` over the field `ZMod p`. -/
theorem generator_order_certified :
    addOrderOf (toPoint secp256r1 secp256r1.g) = secp256r1.n ∧
    addOrderOf (toPoint secp384r1 secp384r1.g) = secp384r1.n ∧
    addOrderOf (toPoint secp192r1 secp192r1.g) = secp192r1.n ∧
    addOrderOf (toPoint secp224r1 secp224r1.g) = secp224r1.n ∧
    addOrderOf (toPoint secp521r1 secp521r1.g) = secp521r1.n ∧
    addOrderOf (toPoint secp256k1 secp256k1.g) = secp256k1.n ∧
    addOrderOf (toPoint brainpoolP256r1 brainpoolP256r1.g) = brainpoolP256r1.n ∧
    addOrderOf (toPoint brainpoolP384r1 brainpoolP384r1.g) = brainpoolP384r1.n ∧
    addOrderOf (toPoint brainpoolP512r1 brainpoolP512r1.g) = brainpoolP512r1.n :=
  ⟨C11Primes.secp256r1_generator_order, C11Primes.secp384r1_generator_order,
   C11Primes.secp192r1_generator_order, C11Primes.secp224r1_generator_order,
   C11Primes.secp521r1_generator_order, C11Primes.secp256k1_generator_order,
   C11Primes.brainpoolP256r1_generator_order, C11Primes.brainpoolP384r1_generator_order,
   C11Primes.brainpoolP512r1_generator_order⟩

theorem curves_elliptic_certified :
    (W secp256r1).IsElliptic ∧ (W secp384r1).IsElliptic ∧ (W secp192r1).IsElliptic ∧
    (W secp224r1).IsElliptic ∧ (W secp521r1).IsElliptic ∧ (W secp256k1).IsElliptic ∧
    (W brainpoolP256r1).IsElliptic ∧ (W brainpoolP384r1).IsElliptic ∧ (W brainpoolP512r1).IsElliptic :=
  ⟨C11Primes.secp256r1_elliptic, C11Primes.secp384r1_elliptic, C11Primes.secp192r1_elliptic,
   C11Primes.secp224r1_elliptic, C11Primes.secp521r1_elliptic, C11Primes.secp256k1_elliptic,
   C11Primes.brainpoolP256r1_elliptic, C11Primes.brainpoolP384r1_elliptic, C11Primes.brainpoolP512r1_elliptic⟩

/-- the factory holds exactly these nine curves; the ten binary-field `CurveType`s map to `None`. -/
theorem curve_factory_names : Consts.ecCurveNames =
    ["secp256r1", "secp384r1", "secp192r1", "secp224r1", "secp521r1", "secp256k1",
     "brainpoolP256r1", "brainpoolP384r1", "brainpoolP512r1"] := curveNames_eq

theorem curve_factory_none : Consts.ecCurveNone.map Prod.fst = [7, 8, 9, 10, 11, 12, 13, 14, 15, 16]
    ∧ Consts.ecCurveUnmapped = [(0, "CURVE_UNKNOWN")]
    ∧ Consts.ecCurveTable.map Prod.snd = Consts.ecCurveNames := curveNone_eq

/-! ### defect D3: the pinned code is NOT the group law on these inputs -/

theorem add_pinned_fails_x :
    addPinned secp256r1 secp256r1.g (.aff (secp256r1.gx + secp256r1.p) secp256r1.gy)
      = .error .zeroDivision ∧
    add secp256r1 secp256r1.g (.aff (secp256r1.gx + secp256r1.p) secp256r1.gy)
      = double secp256r1 secp256r1.g := Ec.add_pinned_fails_x

theorem add_pinned_fails_y :
    addPinned secp256r1 secp256r1.g (.aff secp256r1.gx (secp256r1.gy + secp256r1.p)) = .ok .inf ∧
    add secp256r1 secp256r1.g (.aff secp256r1.gx (secp256r1.gy + secp256r1.p))
      = double secp256r1 secp256r1.g ∧
    double secp256r1 secp256r1.g ≠ .ok .inf := Ec.add_pinned_fails_y

theorem double_pinned_fails :
    doublePinned secp256r1 (.aff 5 0) = .error .zeroDivision ∧
    double secp256r1 (.aff 5 0) = .ok .inf ∧
    doubleJ secp256r1 ⟨5, 0, 1⟩ = infJ := Ec.double_pinned_fails

theorem batchDouble_pinned_fails :
    batchDoublePinned secp256r1 [.aff 5 secp256r1.p] = .error .zeroDivision ∧
    batchDouble secp256r1 [.aff 5 secp256r1.p] = .ok [.inf] := Ec.batchDouble_pinned_fails

/-! ### non-vacuity: the hypotheses are met by concrete non-trivial inputs -/

/-- a toy curve `y² = x³ - 3x + 5` over `GF(101)`. -/
def toy : Curve := ⟨-3, 5, 101, 0, 45, 0, 1⟩

example : onCurve secp256r1 secp256r1.g = true := by decide +kernel
example : onCurve toy (.aff 0 45) = true ∧ toy.discrNonzero = true := by decide +kernel
example : add toy (.aff 0 45) (.aff 101 45) = double toy (.aff 0 45) := by decide +kernel
example : multiply secp256r1 secp256r1.g (-1) = .ok (negate secp256r1 secp256r1.g) := by decide +kernel
example : batchInverse toy [some 3, none, some 0, some 7] = .ok [some 34, none, none, some 29] := by
  decide +kernel
example : (batchMultiplyG secp256r1 [] [0, 1, -1]).toOption.map (·.1.length) = some 3 := by
  decide +kernel

end Paranoid.C11
