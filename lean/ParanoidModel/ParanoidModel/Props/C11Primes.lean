/-
Props/C11Primes.lean — the primality HYPOTHESIS of the C11 theorems (`[Fact c.p.Prime]`, `Nat.Prime c.n`)
discharged by the Lean kernel for the curve constants regenerated from `ec_util.CURVE_FACTORY`.

Each `…_prime` theorem is a Pratt certificate (Lucas test `a^(q-1) ≡ 1`, `a^((q-1)/r) ≢ 1` for every
prime `r ∣ q-1`, recursively; Mathlib `lucas_primality`) evaluated by `decide +kernel` in
Proofs/PrattCurves.lean on the certificate data of Generated/Consts.lean (harness/consts/pratt.py:
untrusted factoring search, cached in harness/consts/pratt_cache.json). The theorem statement is
about the regenerated curve constant itself, so a changed constant breaks the build.

For the curves with BOTH numbers certified the consequences are stated without any hypothesis:
the curve is elliptic over the field `ZMod p`, `G` has order exactly `n` in Mathlib's group
`(W c).Point`. What is NOT certified is listed in `uncertified` (checked against the regenerated
status table) and stays a hypothesis validated per run by `gmpy2.is_prime(·, 64)`.
-/
import ParanoidModel.Proofs.PrattCurves
import ParanoidModel.Proofs.EcOrder
namespace Paranoid.C11Primes
open Paranoid Paranoid.Ec WeierstrassCurve

/-! ### kernel-checked primality (18 of the 18 numbers) -/

theorem secp256r1_p_prime : Nat.Prime secp256r1.p := Pratt.secp256r1_p_prime
theorem secp256r1_n_prime : Nat.Prime secp256r1.n := Pratt.secp256r1_n_prime
theorem secp384r1_p_prime : Nat.Prime secp384r1.p := Pratt.secp384r1_p_prime
theorem secp384r1_n_prime : Nat.Prime secp384r1.n := Pratt.secp384r1_n_prime
theorem secp192r1_p_prime : Nat.Prime secp192r1.p := Pratt.secp192r1_p_prime
theorem secp192r1_n_prime : Nat.Prime secp192r1.n := Pratt.secp192r1_n_prime
theorem secp224r1_p_prime : Nat.Prime secp224r1.p := Pratt.secp224r1_p_prime
theorem secp224r1_n_prime : Nat.Prime secp224r1.n := Pratt.secp224r1_n_prime
theorem secp521r1_p_prime : Nat.Prime secp521r1.p := Pratt.secp521r1_p_prime
theorem secp521r1_n_prime : Nat.Prime secp521r1.n := Pratt.secp521r1_n_prime
theorem secp256k1_p_prime : Nat.Prime secp256k1.p := Pratt.secp256k1_p_prime
theorem secp256k1_n_prime : Nat.Prime secp256k1.n := Pratt.secp256k1_n_prime
theorem brainpoolP256r1_p_prime : Nat.Prime brainpoolP256r1.p := Pratt.brainpoolP256r1_p_prime
theorem brainpoolP256r1_n_prime : Nat.Prime brainpoolP256r1.n := Pratt.brainpoolP256r1_n_prime
theorem brainpoolP384r1_p_prime : Nat.Prime brainpoolP384r1.p := Pratt.brainpoolP384r1_p_prime
theorem brainpoolP384r1_n_prime : Nat.Prime brainpoolP384r1.n := Pratt.brainpoolP384r1_n_prime
theorem brainpoolP512r1_p_prime : Nat.Prime brainpoolP512r1.p := Pratt.brainpoolP512r1_p_prime
theorem brainpoolP512r1_n_prime : Nat.Prime brainpoolP512r1.n := Pratt.brainpoolP512r1_n_prime

instance : Fact (Nat.Prime secp256r1.p) := ⟨secp256r1_p_prime⟩
instance : Fact (Nat.Prime secp256r1.n) := ⟨secp256r1_n_prime⟩
instance : Fact (Nat.Prime secp384r1.p) := ⟨secp384r1_p_prime⟩
instance : Fact (Nat.Prime secp384r1.n) := ⟨secp384r1_n_prime⟩
instance : Fact (Nat.Prime secp192r1.p) := ⟨secp192r1_p_prime⟩
instance : Fact (Nat.Prime secp192r1.n) := ⟨secp192r1_n_prime⟩
instance : Fact (Nat.Prime secp224r1.p) := ⟨secp224r1_p_prime⟩
instance : Fact (Nat.Prime secp224r1.n) := ⟨secp224r1_n_prime⟩
instance : Fact (Nat.Prime secp521r1.p) := ⟨secp521r1_p_prime⟩
instance : Fact (Nat.Prime secp521r1.n) := ⟨secp521r1_n_prime⟩
instance : Fact (Nat.Prime secp256k1.p) := ⟨secp256k1_p_prime⟩
instance : Fact (Nat.Prime secp256k1.n) := ⟨secp256k1_n_prime⟩
instance : Fact (Nat.Prime brainpoolP256r1.p) := ⟨brainpoolP256r1_p_prime⟩
instance : Fact (Nat.Prime brainpoolP256r1.n) := ⟨brainpoolP256r1_n_prime⟩
instance : Fact (Nat.Prime brainpoolP384r1.p) := ⟨brainpoolP384r1_p_prime⟩
instance : Fact (Nat.Prime brainpoolP384r1.n) := ⟨brainpoolP384r1_n_prime⟩
instance : Fact (Nat.Prime brainpoolP512r1.p) := ⟨brainpoolP512r1_p_prime⟩
instance : Fact (Nat.Prime brainpoolP512r1.n) := ⟨brainpoolP512r1_n_prime⟩

/-! ### what remains a hypothesis -/

/-- the numbers WITHOUT a kernel-checked certificate, as `((curve, "p" | "n"), reason)`, the reason
being the composite cofactor on which the factoring search (trial division, rho, p-1, ECM with
gmpy2 on all cores) gave up. Their primality would stay a hypothesis of the C11 theorems, validated
per run by `gmpy2.is_prime(·, 64)`. CURRENTLY EMPTY: all 18 numbers are certified. (The two hard ones:
the order of secp521r1 — `n-1 ∋ P118`, `P118-1 = 2·161969·P109`, `P109-1 ∋ C91 = P36·P56`, split by
ECM at B1 = 3·10^6 — and the field prime of brainpoolP384r1 — `p-1 ∋ P74`, `P74-1 ∋ C66 = P32·P34`,
split by ECM at B1 = 10^6; both factorisations are in harness/consts/pratt_cache.json.) -/
def uncertifiedReasons : List ((String × String) × String) := []

def uncertified : List String :=
  uncertifiedReasons.map fun x => x.1.1 ++ "." ++ x.1.2 ++ ": " ++ x.2

/-- `uncertified` is exactly the set of numbers for which the regenerated status table
(`Consts.prattStatus`, harness/consts/pratt.py) reports no certificate. -/
theorem uncertified_complete :
    (Consts.prattStatus.filter fun t => !t.2.2.1).map (fun t => (t.1, t.2.1)) =
      uncertifiedReasons.map Prod.fst := by decide +kernel

/-- … and every other entry of the 18 has a `…_prime` theorem above (the status table has 18 rows,
two per curve of the factory, in factory order). -/
theorem status_rows : Consts.prattStatus.map (fun t => (t.1, t.2.1)) =
    Consts.ecCurveNames.flatMap (fun c => [(c, "p"), (c, "n")]) := by decide +kernel

/-! ### hypothesis-free consequences -/

section
variable (c : Curve) [Fact (Nat.Prime c.p)]

/-- over a prime field the evaluated parameter check makes `W c` an elliptic curve. -/
theorem isElliptic_of_paramsOK (h : c.paramsOK = true) : (W c).IsElliptic :=
  ⟨isUnit_iff_ne_zero.mpr (W_Δ_ne_zero c (generator_of_paramsOK c h).1)⟩

/-- … and, with `n` prime, `G` generates a subgroup of order exactly `n`; a scalar multiple
`k • G` vanishes iff `n ∣ k`. -/
theorem generator_order (h : c.paramsOK = true) (hn : Nat.Prime c.n) :
    addOrderOf (toPoint c c.g) = c.n ∧ ∀ k : Nat, k • toPoint c c.g = 0 ↔ c.n ∣ k := by
  have ho := (generator_of_paramsOK c h).2.2.2.2.2 hn
  exact ⟨ho, fun k => by rw [← ho]; exact addOrderOf_dvd_iff_nsmul_eq_zero.symm⟩
end

/-- secp256r1: no hypothesis left. -/
theorem secp256r1_elliptic : (W secp256r1).IsElliptic := isElliptic_of_paramsOK _ secp256r1_paramsOK
theorem secp256r1_generator_order : addOrderOf (toPoint secp256r1 secp256r1.g) = secp256r1.n :=
  (generator_order _ secp256r1_paramsOK secp256r1_n_prime).1

/-- secp384r1: no hypothesis left. -/
theorem secp384r1_elliptic : (W secp384r1).IsElliptic := isElliptic_of_paramsOK _ secp384r1_paramsOK
theorem secp384r1_generator_order : addOrderOf (toPoint secp384r1 secp384r1.g) = secp384r1.n :=
  (generator_order _ secp384r1_paramsOK secp384r1_n_prime).1

/-- secp192r1: no hypothesis left. -/
theorem secp192r1_elliptic : (W secp192r1).IsElliptic := isElliptic_of_paramsOK _ secp192r1_paramsOK
theorem secp192r1_generator_order : addOrderOf (toPoint secp192r1 secp192r1.g) = secp192r1.n :=
  (generator_order _ secp192r1_paramsOK secp192r1_n_prime).1

/-- secp224r1: no hypothesis left. -/
theorem secp224r1_elliptic : (W secp224r1).IsElliptic := isElliptic_of_paramsOK _ secp224r1_paramsOK
theorem secp224r1_generator_order : addOrderOf (toPoint secp224r1 secp224r1.g) = secp224r1.n :=
  (generator_order _ secp224r1_paramsOK secp224r1_n_prime).1

/-- secp521r1: no hypothesis left. -/
theorem secp521r1_elliptic : (W secp521r1).IsElliptic := isElliptic_of_paramsOK _ secp521r1_paramsOK
theorem secp521r1_generator_order : addOrderOf (toPoint secp521r1 secp521r1.g) = secp521r1.n :=
  (generator_order _ secp521r1_paramsOK secp521r1_n_prime).1

/-- secp256k1: no hypothesis left. -/
theorem secp256k1_elliptic : (W secp256k1).IsElliptic := isElliptic_of_paramsOK _ secp256k1_paramsOK
theorem secp256k1_generator_order : addOrderOf (toPoint secp256k1 secp256k1.g) = secp256k1.n :=
  (generator_order _ secp256k1_paramsOK secp256k1_n_prime).1

/-- brainpoolP256r1: no hypothesis left. -/
theorem brainpoolP256r1_elliptic : (W brainpoolP256r1).IsElliptic := isElliptic_of_paramsOK _ brainpoolP256r1_paramsOK
theorem brainpoolP256r1_generator_order : addOrderOf (toPoint brainpoolP256r1 brainpoolP256r1.g) = brainpoolP256r1.n :=
  (generator_order _ brainpoolP256r1_paramsOK brainpoolP256r1_n_prime).1

/-- brainpoolP384r1: no hypothesis left. -/
theorem brainpoolP384r1_elliptic : (W brainpoolP384r1).IsElliptic := isElliptic_of_paramsOK _ brainpoolP384r1_paramsOK
theorem brainpoolP384r1_generator_order : addOrderOf (toPoint brainpoolP384r1 brainpoolP384r1.g) = brainpoolP384r1.n :=
  (generator_order _ brainpoolP384r1_paramsOK brainpoolP384r1_n_prime).1

/-- brainpoolP512r1: no hypothesis left. -/
theorem brainpoolP512r1_elliptic : (W brainpoolP512r1).IsElliptic := isElliptic_of_paramsOK _ brainpoolP512r1_paramsOK
theorem brainpoolP512r1_generator_order : addOrderOf (toPoint brainpoolP512r1 brainpoolP512r1.g) = brainpoolP512r1.n :=
  (generator_order _ brainpoolP512r1_paramsOK brainpoolP512r1_n_prime).1

/-! ### non-vacuity -/

example : (2 : Nat) • toPoint secp256r1 secp256r1.g ≠ 0 := by
  intro h
  have := (generator_order secp256r1 secp256r1_paramsOK secp256r1_n_prime).2 2 |>.mp h
  exact absurd (Nat.le_of_dvd (by decide) this) (by decide +kernel)

end Paranoid.C11Primes
