/-
Props/C12.lean — "NIST SP 800-22 statistics and p-values are computed as specified".
Property theorems only; helper lemmas live in Proofs/Nist.lean and Proofs/NistTables.lean.

What is proved here is the EXACT part of every test (Model/Nist.lean): parameter ladders and
the insufficient-data conditions, the integer statistic as the definition of NIST SP 800-22
over the bit list ε₁ … εₙ (`bitList bits n`, ε₁ = least significant bit), its invariances, the
tables that are rationally derivable, and the ranges that put every special-function argument in
its domain.  Everything floating point (erfc, igamc, erf, log, sqrt, the value of the p-value) is
NOT proved: it is re-evaluated with mpmath by harness/corr/c12.py on every run.

All statements are universally quantified over the bit string (`bits n : Nat`, no size bound) and
over the optional parameters.  `Variant.repaired` is the behaviour after the repairs D4, D10–D14,
D19 (fixes/*.diff); the pinned behaviour is refuted on concrete witnesses (`…_pinned_fails`).
-/
import ParanoidModel.Proofs.Nist
namespace Paranoid.C12
open Paranoid Paranoid.Nist

/-! ## A. Parameter ladders and insufficient-data conditions (★) -/

/-- `BlockFrequency` raises (InsufficientDataError, and nothing else) exactly for n < 100. -/
theorem blockFrequency_insufficient_iff (bits n : Nat) :
    (∃ e, blockFrequency bits n = .error e) ↔ n < 100 := blockFrequency_error_iff bits n

theorem blockFrequency_only_insufficient (bits n : Nat) (e : PyErr)
    (h : blockFrequency bits n = .error e) : e = .insufficientData := blockFrequency_error bits n e h

/-- chosen block size: M ≥ 20, fewer than 100 blocks (hence M > n/100, NIST 2.2.7), and M is 20
or the smallest of 32, 64, 128, … with fewer than 100 blocks; at least one block exists. -/
theorem blockFrequency_block_size (bits n : Nat) (o : BlockFreqOut) (h : blockFrequency bits n = .ok o) :
    o.m = bfBlockSize n ∧ 20 ≤ o.m ∧ n / o.m < 100 ∧ 0 < o.counts.length ∧
      (o.m = 20 ∨ ((∃ k, o.m = 16 * 2 ^ k) ∧ 100 ≤ n / (o.m / 2))) := by
  obtain ⟨_, hm, _, _, _⟩ := blockFrequency_ok bits n o h
  have hs := bfBlockSize_spec n
  rw [← hm] at hs
  exact ⟨hm, hs.1, hs.2.1, blockFrequency_blocks_pos bits n o h, hs.2.2⟩

/-- `LongestRuns` raises exactly for n < 128 (NIST 2.4.7). -/
theorem longestRuns_insufficient_iff (bits n : Nat) :
    (∃ e, longestRuns bits n = .error e) ↔ n < 128 := longestRuns_error_iff bits n

/-- parameter set (M, v_lower, v_upper) by the thresholds 128 / 6272 / 750000 (NIST 2.4.2). -/
theorem longestRuns_params (n : Nat) :
    (lrParams n = none ↔ n < 128) ∧
    (lrParams n = some (8, 1, 4) ↔ 128 ≤ n ∧ n < 6272) ∧
    (lrParams n = some (128, 4, 9) ↔ 6272 ≤ n ∧ n < 750000) ∧
    (lrParams n = some (10000, 10, 16) ↔ 750000 ≤ n) := lrParams_spec n

/-- the thresholds, block sizes and class bounds in the source are the ones of the model. -/
theorem longestRuns_params_source :
    Paranoid.Consts.Nist.longestRunsParams.map (fun p => (p.1, p.2.1, p.2.2.1, p.2.2.2.1)) =
      [(128, 8, 1, 4), (6272, 128, 4, 9), (750000, 10000, 10, 16)] := lr_params_consts

/-- `BinaryMatrixRank` with `check_size` raises InsufficientDataError exactly for n < 38·r·c
(NIST 2.5.7), for every admissible shape 1 ≤ k ≤ min(r, c). -/
theorem rank_insufficient_iff (bits n r c k : Nat) (hk : 1 ≤ k) (hkm : k ≤ min r c) :
    binaryMatrixRank bits n r c k true = .error .insufficientData ↔ n < 38 * r * c :=
  binaryMatrixRank_insufficient_iff bits n r c k hk hkm

/-- `Universal` raises InsufficientDataError exactly for n < 387840 (NIST 2.9.7). -/
theorem universal_insufficient_iff (bits n : Nat) :
    universal bits n = .error .insufficientData ↔ n < 387840 := Nist.universal_insufficient_iff bits n

/-- block size: L = max {L | min_n L ≤ n}, Q = 10·2^L, K = ⌊n/L⌋ − Q; the `min_n` table of the
source is the model's. (Repaired behaviour; the pinned code takes the minimum: `universal_pinned_fails`.) -/
theorem universal_block_size (bits n : Nat) (o : UniversalOut) (h : universal bits n = .ok o) :
    ((∃ b, (o.blockSize, b) ∈ Paranoid.Consts.Nist.universalMinN ∧ b ≤ n) ∧
      ∀ L' b', (L', b') ∈ Paranoid.Consts.Nist.universalMinN → b' ≤ n → L' ≤ o.blockSize) ∧
    o.q = 10 * 2 ^ o.blockSize ∧ o.k = n / o.blockSize - o.q := by
  obtain ⟨hL, hq, hk⟩ := universal_ok_params bits n o h
  rw [← universalMinN_eq_consts]
  exact ⟨(universalL_spec n o.blockSize).mp hL, hq, hk⟩

/-- D19: for n = 904960 NIST prescribes L = 7, the pinned `min(...)` gives L = 6. -/
theorem universal_pinned_fails : universalLPinned 904960 = some 6 ∧ universalL 904960 = some 7 :=
  universalLPinned_fails

/-- `LinearComplexity` raises InsufficientDataError exactly for block_size < 10 or fewer than 200
blocks, whatever the oracle (Berlekamp–Massey) answers. -/
theorem linearComplexity_insufficient_iff (n bs : Nat) (cs : List Nat) :
    linearComplexity n bs cs = .error .insufficientData ↔ bs < 10 ∨ bs * 200 > n :=
  Nist.linearComplexity_insufficient_iff n bs cs

/-- template length of `NonOverlappingTemplateMatching` by block size. -/
theorem nonOverlapping_template_size (bs : Nat) :
    (notmM bs = none ↔ bs < 4) ∧
    (notmM bs = some 2 ↔ 4 ≤ bs ∧ bs < 64) ∧ (notmM bs = some 3 ↔ 64 ≤ bs ∧ bs < 256) ∧
    (notmM bs = some 4 ↔ 256 ≤ bs ∧ bs < 1024) ∧ (notmM bs = some 5 ↔ 1024 ≤ bs ∧ bs < 2048) ∧
    (notmM bs = some 6 ↔ 2048 ≤ bs ∧ bs < 4096) ∧ (notmM bs = some 7 ↔ 4096 ≤ bs ∧ bs < 8192) ∧
    (notmM bs = some 8 ↔ 8192 ≤ bs ∧ bs < 16384) ∧ (notmM bs = some 9 ↔ 16384 ≤ bs ∧ bs < 32768) ∧
    (notmM bs = some 10 ↔ 32768 ≤ bs) := notmM_spec bs

/-- default m_max of `Serial`: the largest m with m < ⌊log₂ n⌋ − 2 (NIST 2.11.7), within [2, 22]. -/
theorem serial_m_max (n : Nat) :
    2 ≤ serialMMax n ∧ serialMMax n ≤ 22 ∧
      (32 ≤ n → serialMMax n + 3 ≤ Nat.log2 n ∧ (serialMMax n = 22 ∨ serialMMax n + 3 = Nat.log2 n)) :=
  serialMMax_spec n

/-- default m_max of `ApproximateEntropy`: never above NIST's bound m < ⌊log₂ n⌋ − 5 (2.12.7) and
one / two / three less for n ≥ 2^16 / 2^20 / 2^24 (capped at 22), as documented in the code. -/
theorem apen_m_max (n : Nat) (hn : 256 ≤ n) :
    2 ≤ apenMMax n ∧ apenMMax n ≤ 22 ∧ apenMMax n + 6 ≤ Nat.log2 n ∧
    (n < 2 ^ 16 → apenMMax n + 6 = Nat.log2 n) ∧
    (2 ^ 16 ≤ n → n < 2 ^ 20 → apenMMax n + 7 = Nat.log2 n) ∧
    (2 ^ 20 ≤ n → n < 2 ^ 24 → apenMMax n + 8 = Nat.log2 n) ∧
    (2 ^ 24 ≤ n → apenMMax n = min 22 (Nat.log2 n - 9)) := apenMMax_spec n hn

/-- `LargeBinaryMatrixRank` raises exactly for n < 4096. -/
theorem largeRank_insufficient_iff (bits n : Nat) :
    (∃ e, largeBinaryMatrixRank bits n = .error e) ↔ n < 4096 := largeRank_error_iff bits n

/-! ## B. The exact statistic is the NIST definition over the bit list (★) -/

/-- the bit list is ε_{i+1} = bit i of `bits`, i < n. -/
theorem bitList_spec (bits n : Nat) :
    bitList bits n = (List.range n).map (fun i => bits.testBit i) := by
  rw [bitList_eq, bitsSmall_testBit]

/-- 2.1.4: s_obs·√n = |S_n| = |Σ (2εᵢ − 1)|; the only exception is the division by √0. -/
theorem frequency_statistic (bits n a m : Nat) (h : frequency bits n = .ok (a, m)) :
    m = n ∧ 0 < n ∧ (a : Int) = |walkSum (bitList bits n)| := by
  obtain ⟨h1, h2, h3⟩ := frequency_ok bits n a m h
  exact ⟨h1, h2, by rw [h3, freqStat_eq]⟩

theorem frequency_raises_iff (bits n : Nat) : (∃ e, frequency bits n = .error e) ↔ n = 0 :=
  frequency_error_iff bits n

/-- 2.3.4: π = (#ones)/n and V_n(obs) = Σ_{k<n} [ε_k ≠ ε_{k+1}] + 1; the result is the degenerate
case (p = 0, D13) exactly when π(1−π) = 0, and otherwise 0 < #ones < n (positive denominator). -/
theorem runs_statistic (bits n : Nat) (o : RunsOut) (h : runs bits n = .ok o) :
    0 < n ∧
    (o = .degenerate ↔ ones (bitList bits n) = 0 ∨ ones (bitList bits n) = n) ∧
    ∀ pop v m, o = .stat pop v m →
      m = n ∧ pop = ones (bitList bits n) ∧ 0 < pop ∧ pop < n ∧
      v = (List.range (n - 1)).countP (fun k => (bitList bits n)[k]? != (bitList bits n)[k + 1]?) + 1 := by
  obtain ⟨hn, ho⟩ := runs_ok bits n o h
  refine ⟨hn, ?_, ?_⟩
  · rw [ho]; unfold runsOfCounts; split <;> simp_all
  · intro pop v m hs
    rw [ho] at hs
    have hle : ones (bitList bits n) ≤ n := by
      have := ones_le_length (bitList bits n); rwa [bitList_length] at this
    obtain ⟨h1, h2, h3, h4, h5⟩ := runsOfCounts_stat _ _ _ _ _ _ hs hle
    refine ⟨h3, h1, by omega, by omega, ?_⟩
    rw [h2]
    unfold runsCount
    have hne : (bitList bits n).isEmpty = false := by
      cases hl : bitList bits n with
      | nil => have := bitList_length bits n; rw [hl] at this; simp at this; omega
      | cons a l => rfl
    rw [hne, transitions_index, bitList_length]
    simp

/-- 2.2.4: the blocks are the consecutive M-bit pieces, the counts their numbers of ones, and
num/den = χ²(obs) = 4M Σ (πᵢ − ½)². -/
theorem blockFrequency_statistic (bits n : Nat) (o : BlockFreqOut) (h : blockFrequency bits n = .ok o) :
    o.counts = ((List.range (n / o.m)).map (fun i => ((bitList bits n).drop (i * o.m)).take o.m)).map ones ∧
    ((o.num : ℚ) / o.den) = 4 * o.m * (o.counts.map (fun (c : Nat) => ((c : ℚ) / o.m - 1 / 2) ^ 2)).sum := by
  obtain ⟨_, hm, hd, hc, hn⟩ := blockFrequency_ok bits n o h
  have h20 := (bfBlockSize_spec n).1
  constructor
  · rw [hc, chunks_spec, bitList_length, hm]
  · have := blockFrequency_chi o.m (by omega) o.counts
    simp only [blockFrequencyImpl] at this
    rw [hn, hd, ← hm]
    exact this

/-- 2.4.4: `hist[i]` = number of M-bit blocks whose longest run of ones falls in class i
(≤ v_lower, v_lower+1, …, ≥ v_upper) … -/
theorem longestRuns_histogram (bits n : Nat) (o : LongestRunsOut) (h : longestRuns bits n = .ok o) :
    lrParams n = some (o.m, o.vLower, o.vUpper) ∧
    o.hist = (List.range (o.vUpper - o.vLower + 1)).map (fun i =>
      ((chunks (bitList bits n) o.m).map (fun b => lrClass o.vLower o.vUpper (longestRun b))).count i) :=
  longestRuns_ok bits n o h

/-- … where the longest run of a block is the largest k such that k consecutive ones occur. -/
theorem longestRun_spec (l : List Bool) (k : Nat) (hk : 1 ≤ k) :
    k ≤ longestRun l ↔ ∃ i, ∀ j < k, l[i + j]? = some true := le_longestRun_iff l k hk

/-- 2.13.4 cusum: z_fwd = max_k |S_k|, z_bwd = max_k |S_n − S_k| (k = 0 … n);
2.14.4: J = (number of k ≤ n with S_k = 0) + 1 — the zero crossings of S′ = 0, S₁, …, Sₙ, 0 —
and, when J ≥ 500, for every state x the histogram of min(max_cnt, visits to x per cycle);
2.15.4: ξ(x) = total number of visits. Below 500 cycles no excursion p-value is computed.
(Repaired code; for the pinned code see `randomWalk_pinned_fails`.) -/
theorem randomWalk_statistics (bits n ms mc msv : Nat) (o : RandomWalkOut)
    (h : randomWalk .repaired bits n ms mc msv = .ok o) :
    o.n = n ∧
    IsMaxOf o.zFwd (((0 : Int) :: walkFrom 0 (bitList bits n)).map Int.natAbs) ∧
    IsMaxOf o.zBwd (((0 : Int) :: walkFrom 0 (bitList bits n)).map
      (fun s => (walkSum (bitList bits n) - s).natAbs)) ∧
    o.cycles = (walkFrom 0 (bitList bits n)).count 0 + 1 ∧
    (500 ≤ o.cycles →
      o.exHists = (stateRange ms).map (fun x => (List.range (mc + 1)).map (fun i =>
        ((visitCounts x (walkFrom 0 (bitList bits n))).map (min mc)).count i)) ∧
      o.totals = (stateRange msv).map (fun x => (walkFrom 0 (bitList bits n)).count x)) ∧
    (o.cycles < 500 → o.exHists = [] ∧ o.totals = []) :=
  randomWalk_spec bits n ms mc msv o h

/-- the visited states are the partial sums S_k = X₁ + … + X_k, X_i = 2ε_i − 1. -/
theorem walk_states (l : List Bool) (x : Int) :
    x ∈ (0 : Int) :: walkFrom 0 l ↔ ∃ k, k ≤ l.length ∧ x = walkSum (l.take k) := by
  rw [mem_walkFrom]; simp

/-- D4: on `1111` the pinned code uses 3 for the backward cusum although max_k |S₄ − S_k| = 4. -/
theorem randomWalk_pinned_fails :
    (randomWalk .pinned 15 4 4 5 9).map (fun o => (o.zFwd, o.zBwd)) = .ok (4, 3) ∧
    (randomWalk .repaired 15 4 4 5 9).map (fun o => (o.zFwd, o.zBwd)) = .ok (4, 4) :=
  randomWalk_pinned_1111

/-- ☆ 2.7.4: non-overlapping template matching counts, per block, the positions p ≤ n − m at which
the m-bit pattern w occurs (the implementation counts every pattern once and looks the templates up). -/
theorem pattern_counts_block (l : List Bool) (m : Nat) (hm : 1 ≤ m) (hl : m ≤ l.length) :
    (countsNoWrap l m).toList = (List.range (2 ^ m)).map (fun w =>
      ((List.range (l.length - m + 1)).map (fun p => natOfBits ((l.drop p).take m))).count w) :=
  countsNoWrap_spec l m hm hl

/-- ☆ 2.11.4 / 2.12.4: the top-level pattern counts of Serial (m = m_max) and ApproximateEntropy
(m = m_max + 1) are the counts ν_w over the n positions of the sequence extended by its first m − 1 bits. -/
theorem pattern_counts_cyclic (l : List Bool) (m : Nat) (hm : 1 ≤ m) (hl : m ≤ l.length) :
    (countsWrap l m).toList = (List.range (2 ^ m)).map (fun w =>
      ((List.range l.length).map (fun p => natOfBits (((l ++ l.take (m - 1)).drop p).take m))).count w) :=
  countsWrap_spec l m hm hl

/-- ☆ the counts for shorter patterns, which the code obtains by adding neighbouring entries, are the
counts of the (m−1)-bit patterns of the extended sequence. -/
theorem pattern_counts_marginal (l : List Bool) (m : Nat) (hm : 2 ≤ m) (hl : m ≤ l.length) :
    pairSum (countsWrap l m).toList = (countsWrap l (m - 1)).toList := pairSum_countsWrap l m hm hl

/-- ☆ 2.11.4: Serial — for every m ≤ m_max, `sq[m−1]` = Σ_w ν_w² over the m-bit patterns, so that
ψ²_m = (2^m/n)·sq[m−1] − n is NIST's ψ²_m (ν_w as in `pattern_counts_cyclic`). -/
theorem serial_statistic (bits n : Nat) (mm : Option Nat) (o : SerialOut) (h : serial bits n mm = .ok o) :
    o.n = n ∧ o.mMax ≤ n ∧
    o.sq = (List.range o.mMax).map (fun i => sumSq (countsWrap (bitList bits n) (i + 1)).toList) :=
  ⟨(serial_ok bits n mm o h).1, (serial_ok bits n mm o h).2.1, serial_sq bits n mm o h⟩

/-- ☆ 2.12.4: ApproximateEntropy — `levels[m−2]` is the multiset of the non-zero counts of the m-bit
patterns, m = 2 … m_max + 1, from which φ^(m) = Σ (ν/n) ln(ν/n) is formed. -/
theorem apen_statistic (bits n : Nat) (mm : Option Nat) (o : ApenOut)
    (h : approximateEntropy bits n mm = .ok o) :
    o.n = n ∧ o.mMax + 1 ≤ n ∧
    o.levels = (List.range o.mMax).map (fun i =>
      multiset ((countsWrap (bitList bits n) (i + 2)).toList.filter (· ≠ 0))) :=
  ⟨(apen_ok bits n mm o h).1, (apen_ok bits n mm o h).2.1, apen_levels bits n mm o h⟩

/-! ## C. Invariances at statistic level (★) -/

/-- complementing the bit string (bits ↦ 2ⁿ − 1 − bits) complements the bit list. -/
theorem complement_bitList (bits n : Nat) (h : bits < 2 ^ n) :
    bitList (2 ^ n - 1 - bits) n = (bitList bits n).map (!·) := bitList_compl bits n h

theorem frequency_complement (bits n : Nat) (h : bits < 2 ^ n) :
    frequency (2 ^ n - 1 - bits) n = frequency bits n := frequency_compl bits n h

/-- block frequency: same block size and same χ² (num/den) for the complemented string. -/
theorem blockFrequency_complement (bits n : Nat) (h : bits < 2 ^ n) (o : BlockFreqOut)
    (ho : blockFrequency bits n = .ok o) :
    ∃ o', blockFrequency (2 ^ n - 1 - bits) n = .ok o' ∧ o'.m = o.m ∧ o'.num = o.num ∧ o'.den = o.den :=
  blockFrequency_compl bits n h o ho

/-- runs: the complemented string has the same V_n(obs) and #ones ↦ n − #ones, so the same
π(1−π) and the same |V − 2nπ(1−π)|. -/
theorem runs_complement (bits n : Nat) (h : bits < 2 ^ n) :
    runs (2 ^ n - 1 - bits) n =
      (if n = 0 then .error .zeroDivision
       else .ok (runsOfCounts (n - ones (bitList bits n)) (runsCount (bitList bits n)) n)) :=
  runs_compl bits n h

/-- frequency and runs statistics of the reversed bit list. -/
theorem frequency_reversal (l : List Bool) : freqStat l.reverse = freqStat l := freqStat_reverse l

theorem runs_reversal (l : List Bool) :
    ones l.reverse = ones l ∧ runsCount l.reverse = runsCount l :=
  ⟨ones_reverse l, runsCount_reverse l⟩

theorem runs_complement_list (l : List Bool) :
    ones (l.map (!·)) + ones l = l.length ∧ runsCount (l.map (!·)) = runsCount l :=
  ⟨ones_map_not l, runsCount_map_not l⟩

/-- the forward cusum of the reversed string is the backward cusum of the string. -/
theorem cusum_reversal (l : List Bool) (zf zb : Nat)
    (hb : IsMaxOf zb (((0 : Int) :: walkFrom 0 l).map (fun s => (walkSum l - s).natAbs)))
    (hf : IsMaxOf zf (((0 : Int) :: walkFrom 0 l.reverse).map Int.natAbs)) : zf = zb :=
  cusum_reverse l zf zb hb hf

/-- ☆ the wrap-around pattern counts of Serial / ApproximateEntropy — hence every ψ²_m, every φ^(m)
and all their p-values — are invariant under cyclic rotation of the string, for every pattern length. -/
theorem serial_apen_rotation_invariant (l : List Bool) (m k : Nat) (hm : 1 ≤ m) (hl : m ≤ l.length) :
    (countsWrap (l.rotate k) m).toList = (countsWrap l m).toList := countsWrap_rotate l m k hm hl

set_option exponentiation.threshold 20000

/-! ## D. Probability tables (★ / ☆) -/

/-- ★ LongestRuns, M = 8: the table is the exact distribution over all 256 blocks (55, 94, 59, 48
of 256) rounded to 4 digits. -/
theorem longestRuns_table_M8 :
    lrExactCounts 8 1 4 = [55, 94, 59, 48] ∧
    rowMatches (lrRow 0) (exactRows (lrExactCounts 8 1 4) (2 ^ 8) 10000) 10000 false = true :=
  ⟨lr8_counts, lr_table_M8⟩

/-- ☆ LongestRuns, M = 128: every entry is the exact probability rounded or truncated to 4 digits;
exact counts through the recurrence `leCount` (equal to brute force for M = 8 and M = 10). -/
theorem longestRuns_table_M128_partial :
    rowMatches (lrRow 1) (exactRows (lrDPCounts 128 4 9) (2 ^ 128) 10000) 10000 true = true ∧
    lrDPCounts 8 1 4 = lrExactCounts 8 1 4 ∧ lrDPCounts 10 2 6 = lrExactCounts 10 2 6 :=
  ⟨lr_table_M128, lrDP_eq_exact_8, lrDP_eq_exact_10⟩

/-- the recurrence counts what it should, for every M (stated here; PROVED in Props/C12More.lean:
`C12More.longestRuns_recurrence_correct`, which also makes the two table facts unconditional). -/
def longestRuns_recurrence_correct : Prop :=
  ∀ M vl vu, vl < vu → lrDPCounts M vl vu = lrExactCounts M vl vu

/-- ☆ LongestRuns, M = 10000: the row in the source is NIST's printed one or the repaired one; the
printed one is NOT exact (first entry 0.0882, exact P(longest run ≤ 10) = 0.0866…) — finding D20. -/
theorem longestRuns_table_M10000_partial :
    (rowSame (lrRow 2) nistPrinted10000 = true ∨ rowSame (lrRow 2) repaired10000 = true) ∧
    classEntry 0 (leCount 10 10000) (2 ^ 10000) 10000 = (866, 866) ∧
    rowMatches (nistPrinted10000.take 1) [classEntry 0 (leCount 10 10000) (2 ^ 10000) 10000] 10000 true = false :=
  ⟨lr_table_M10000, lr10000_first, nist_printed_M10000_inexact⟩

/-- ★ LinearComplexity: `pi[1..5]` are exactly the probabilities 2^(−x) of the complexities
median − 2 … median + 2, for every block size m ≥ 10 … -/
theorem linearComplexity_table_central (m : Nat) (hm : 10 ≤ m) :
    Paranoid.Consts.Nist.linCompPiEven = [(1, 96), (1, 32), (1, 8), (1, 2), (1, 4), (1, 16), (1, 48)] ∧
    Paranoid.Consts.Nist.linCompPiOdd = [(1, 48), (1, 16), (1, 4), (1, 2), (1, 8), (1, 32), (1, 96)] ∧
    lfsrNegLogProb m ((m + 1) / 2 - 2) = .ok (if m % 2 = 0 then 5 else 4) ∧
    lfsrNegLogProb m ((m + 1) / 2 - 1) = .ok (if m % 2 = 0 then 3 else 2) ∧
    lfsrNegLogProb m ((m + 1) / 2) = .ok 1 ∧
    lfsrNegLogProb m ((m + 1) / 2 + 1) = .ok (if m % 2 = 0 then 2 else 3) ∧
    lfsrNegLogProb m ((m + 1) / 2 + 2) = .ok (if m % 2 = 0 then 4 else 5) :=
  ⟨lincomp_pi_consts.1, lincomp_pi_consts.2, lincomp_pi_central m hm⟩

/-- … 2^(−x) is `LfsrCount/2^m` … -/
theorem linearComplexity_count (n c : Nat) (hn : 0 < n) (hc : c ≤ n) :
    ∃ x, lfsrNegLogProb n c = .ok x ∧ lfsrCount n c * 2 ^ x = 2 ^ n := lfsrCount_mul n c hn hc

/-- … and `pi[0]`, `pi[6]` are the tail sums up to 1/(3·2^m): with T_up = #{sequences of complexity
≥ median+3} and T_low = #{≤ median−3}: 3·T_up + 1 = 4^(m−median−2) and 3·T_low = 2·4^(median−3) + 1,
i.e. T_up/2^m = 1/48 − 1/(3·2^m), T_low/2^m = 1/96 + 1/(3·2^m) for even m (1/96, 1/48 for odd m). -/
theorem linearComplexity_table_tails (m : Nat) (hm : 10 ≤ m) :
    3 * ((List.range (m - (m + 1) / 2 - 2)).map (fun i => lfsrCount m (m - i))).sum + 1
      = 4 ^ (m - (m + 1) / 2 - 2) ∧
    3 * (lfsrCount m 0 + ((List.range ((m + 1) / 2 - 3)).map (fun i => lfsrCount m (i + 1))).sum)
      = 2 * 4 ^ ((m + 1) / 2 - 3) + 1 :=
  ⟨lincomp_upper_tail m hm, lincomp_lower_tail m hm⟩

/-- ★ RandomExcursionsDistribution: equals the NIST closed form (3.14) and sums to 1, for every
state |x| ≥ 1 and every max_cnt ≥ 1; all entries are positive. -/
theorem randomExcursions_distribution (x K : Nat) (hx : 1 ≤ x) (hK : 1 ≤ K) :
    (excursionPi x K).map qOf =
      ((1 - 1 / (2 * (x : ℚ))) ::
        (List.range (K - 1)).map (fun j => 1 / (4 * (x : ℚ) ^ 2) * (1 - 1 / (2 * (x : ℚ))) ^ j))
      ++ [1 / (2 * (x : ℚ)) * (1 - 1 / (2 * (x : ℚ))) ^ (K - 1)] ∧
    ((excursionPi x K).map qOf).sum = 1 ∧
    ∀ p ∈ excursionPi x K, 0 < p.1 ∧ 0 < p.2 :=
  ⟨excursionPi_closed_form x K hx hK, excursionPi_sum_one x K hx hK, excursionPi_pos x K hx⟩

/-! ## E. Ranges: every special-function argument is in its domain (★) -/

/-- every χ² formed by `ChiSquare` from counts and positive probabilities is ≥ 0. -/
theorem chiSquare_nonneg (v : List Nat) (pi : List ℚ) (hpi : ∀ p ∈ pi, 0 < p) : 0 ≤ chiSq v pi :=
  chiSq_nonneg v pi hpi

/-- block frequency: χ² ≥ 0 and the shape parameter N/2 is positive. -/
theorem blockFrequency_range (bits n : Nat) (o : BlockFreqOut) (h : blockFrequency bits n = .ok o) :
    (0 : ℚ) ≤ (o.num : ℚ) / o.den ∧ 0 < o.counts.length :=
  ⟨by positivity, blockFrequency_blocks_pos bits n o h⟩

/-- Serial: ∇ψ²_m = ψ²_m − ψ²_{m−1} ≥ 0 for every m ≥ 2 (numerators over the common denominator n). -/
theorem serial_first_difference_nonneg (bits n : Nat) (mm : Option Nat) (o : SerialOut)
    (h : serial bits n mm = .ok o) (j a b : Nat) (ha : o.sq[j]? = some a) (hb : o.sq[j + 1]? = some b) :
    psiNum n (j + 1) a ≤ psiNum n (j + 2) b := serial_dpsi_nonneg bits n mm o h j a b ha hb

/-- ∇²ψ²_m ≥ 0 (stated here; PROVED in Props/C12More.lean: `C12More.serial_second_difference_nonneg`).
The repaired code clamps at 0 (D11), as it does for the ApEn χ² (D10), so the p-values are in
[0, 1] also without this fact. -/
def serial_second_difference_nonneg : Prop :=
  ∀ (bits n : Nat) (mm : Option Nat) (o : SerialOut), serial bits n mm = .ok o →
    ∀ (j a b c : Nat), o.sq[j]? = some a → o.sq[j + 1]? = some b → o.sq[j + 2]? = some c →
      2 * psiNum n (j + 2) b ≤ psiNum n (j + 3) c + psiNum n (j + 1) a

/-! ## Non-vacuity: the hypotheses are met by concrete non-trivial inputs -/

example : frequency 0b1011010101 10 = .ok (2, 10) := by decide +kernel
example : runs 0b0110110101 10 = .ok (.stat 6 8 10) := by decide +kernel
example : (blockFrequency (2 ^ 100 - 1) 100).map (fun o => (o.m, o.num, o.den)) = .ok (20, 2000, 20) := by
  decide +kernel
example : (randomWalk .repaired 0b0110110101 10 4 5 9).map (fun o => (o.zFwd, o.zBwd, o.cycles)) =
    .ok (3, 2, 3) := by decide +kernel
example : (serial 0b0011011101 10 (some 3)).map (fun o => o.sq) = .ok [52, 28, 16] := by decide +kernel
example : universalL 1000000 = some 7 := by decide
example : (longestRuns (2 ^ 128 - 1) 128).map (fun o => o.hist) = .ok [0, 0, 0, 16] := by decide +kernel

end Paranoid.C12
