/-
Props/C12Errors.lean — exception behaviour of the NIST SP 800-22 tests (property C12, review finding F11).

For EVERY modelled test: the exact set of arguments (and oracle answers) for which it raises, and WHICH
exception.  This complements the ladder / "insufficient data" theorems of Props/C12.lean ("raises
InsufficientDataError exactly below the documented minimum") by "… and otherwise the only ways to raise are
the listed argument errors and, for three tests, a floating-point underflow reported by an explicit oracle".

Float-decided exceptions (Model/NistFloat.lean; Python raises although the exact statistic and the exact
expected distribution are perfectly well defined):
  * `BinaryMatrixRank`: `ChiSquare` rejects the float `RankDistribution` when its lumped tail underflows to
    0.0 (ValueError "Invalid probability"), e.g. shapes (8, 300, 5), (40, 40, 33), (2, 1100, 1);
  * `OverlappingTemplateMatching`: the same for the float matrix power, from m ≈ 1071 on;
  * `RandomWalk`: ZeroDivisionError when `RandomExcursionsDistribution(x, max_cnt)` underflows
    (max_cnt ≥ 1075) and the excursion test is evaluated (J ≥ 500, max_state ≥ 1).
The float test's outcome is the oracle (`ChiOracle`, `excZero`), recorded from the real run by
harness/corr/c12.py; all statements hold for every oracle value.  Nothing here says WHEN a float underflows.

Other tests: no float-decided exception (survey in Model/NistFloat.lean).  Preconditions of the whole model
(not theorems): bits < 2^n; optional parameters ≥ 1 (template length m, max_cnt, step_size); n < 2^1023 and
memory suffices (`Frequency(0, 2**1100)` raises OverflowError in `math.sqrt(n)`: not modelled).
Property theorems only; helper lemmas in Proofs/NistErrors.lean.
-/
import ParanoidModel.Proofs.NistErrors
namespace Paranoid.C12Errors
open Paranoid Paranoid.Nist

/-! ## A. Tests whose exceptions are decided by the integer arguments alone -/

/-- `Frequency` raises only ZeroDivisionError, exactly for the empty string (`abs(s) / math.sqrt(0)`). -/
theorem frequency_raises (bits n : Nat) (e : PyErr) :
    frequency bits n = .error e ↔ n = 0 ∧ e = .zeroDivision := frequency_error_kind bits n e

/-- `BlockFrequency` raises only InsufficientDataError, exactly for n < 100. -/
theorem blockFrequency_raises (bits n : Nat) (e : PyErr) :
    blockFrequency bits n = .error e ↔ n < 100 ∧ e = .insufficientData := blockFrequency_error_kind bits n e

/-- `Runs` (repaired, D13) raises only ZeroDivisionError, exactly for the empty string (`BitCount / 0`). -/
theorem runs_raises (bits n : Nat) (e : PyErr) :
    runs bits n = .error e ↔ n = 0 ∧ e = .zeroDivision := runs_error_kind bits n e

/-- `LongestRuns` raises only InsufficientDataError, exactly for n < 128 (its `ChiSquare` call is on a
literal table and on ≥ 16 blocks). -/
theorem longestRuns_raises (bits n : Nat) (e : PyErr) :
    longestRuns bits n = .error e ↔ n < 128 ∧ e = .insufficientData := longestRuns_error_kind bits n e

/-- `LargeBinaryMatrixRank` raises only InsufficientDataError, exactly for n < 64·64. -/
theorem largeRank_raises (bits n : Nat) (e : PyErr) :
    largeBinaryMatrixRank bits n = .error e ↔ n < 4096 ∧ e = .insufficientData := largeRank_error_kind bits n e

/-- `Serial(bits, n, m_max)` raises only ValueError (`FrequencyCount`: "m must not be larger than length"),
exactly for m_max > n … -/
theorem serial_raises (bits n mm : Nat) (e : PyErr) :
    serial bits n (some mm) = .error e ↔ n < mm ∧ e = .valueError := serialWith_error_kind bits n mm e

/-- … and with the default m_max = max(2, min(22, bit_length(n) − 4)) exactly for n < 2. -/
theorem serial_default_raises (bits n : Nat) (e : PyErr) :
    serial bits n none = .error e ↔ n < 2 ∧ e = .valueError := by
  show serialWith bits n (serialMMax n) = .error e ↔ _
  rw [serialWith_error_kind]
  have h1 := (serialMMax_spec n).1
  have h2 := serialMMax_le n
  constructor
  · rintro ⟨h, he⟩; exact ⟨by omega, he⟩
  · rintro ⟨h, he⟩; exact ⟨by omega, he⟩

/-- `ApproximateEntropy(bits, n, m_max)` raises only ValueError, exactly for m_max + 1 > n … -/
theorem apen_raises (bits n mm : Nat) (e : PyErr) :
    approximateEntropy bits n (some mm) = .error e ↔ n < mm + 1 ∧ e = .valueError :=
  apenWith_error_kind bits n mm e

/-- … and with the default m_max exactly for n < 3. -/
theorem apen_default_raises (bits n : Nat) (e : PyErr) :
    approximateEntropy bits n none = .error e ↔ n < 3 ∧ e = .valueError := by
  show apenWith bits n (apenMMax n) = .error e ↔ _
  rw [apenWith_error_kind]
  have h2 := apenMMax_lt n
  constructor
  · rintro ⟨h, he⟩; exact ⟨by omega, he⟩
  · rintro ⟨h, he⟩
    refine ⟨?_, he⟩
    unfold apenMMax
    rw [if_pos (by omega)]
    omega

/-- `LinearComplexity(bits, n, block_size)`, for every answer `cs` of the Berlekamp–Massey oracle:
InsufficientDataError for block_size < 10 or fewer than 200 blocks; otherwise ZeroDivisionError if the
oracle lists no block (`ChiSquare` of zero observations: 0.0/0.0) and ValueError if it reports a
complexity above the block size (`LfsrLogProbability`); nothing else. -/
theorem linearComplexity_raises (n bs : Nat) (cs : List Nat) (e : PyErr) :
    linearComplexity n bs cs = .error e ↔
      ((bs < 10 ∨ n < bs * 200) ∧ e = .insufficientData) ∨
      (10 ≤ bs ∧ bs * 200 ≤ n ∧ cs = [] ∧ e = .zeroDivision) ∨
      (10 ≤ bs ∧ bs * 200 ≤ n ∧ cs ≠ [] ∧ (∃ c ∈ cs, bs < c) ∧ e = .valueError) :=
  linearComplexity_error_iff n bs cs e

/-- with an oracle that meets its obligation (one complexity ≤ block_size per block, `cs.length = n / bs`),
`LinearComplexity` raises InsufficientDataError below the documented minimum and nothing else. -/
theorem linearComplexity_raises_of_oracle_ok (n bs : Nat) (cs : List Nat) (e : PyErr)
    (hlen : cs.length = n / bs) (hc : ∀ c ∈ cs, c ≤ bs) :
    linearComplexity n bs cs = .error e ↔ (bs < 10 ∨ n < bs * 200) ∧ e = .insufficientData := by
  rw [linearComplexity_error_iff]
  constructor
  · rintro (h | ⟨h1, h2, h3, _⟩ | ⟨_, _, _, ⟨c, hcm, hlt⟩, _⟩)
    · exact h
    · exfalso
      rw [h3] at hlen
      have : 200 ≤ n / bs := (Nat.le_div_iff_mul_le (by omega)).mpr (by rw [Nat.mul_comm]; exact h2)
      simp at hlen; omega
    · exact absurd (hc c hcm) (by omega)
  · intro h; exact Or.inl h

/-- `UniversalImpl(bits, n, block_size, q)` raises exactly: ZeroDivisionError for block_size = 0
(`SplitSequence`) and for K = ⌊n/L⌋ − q = 0 (`0 ** (−3/L)`), ValueError for K < 0 (`math.sqrt` of a negative
number) and for a block size outside the table (L > 16).  The table walk itself never raises. -/
theorem universalImpl_raises (bits n L q : Nat) (e : PyErr) :
    universalImpl bits n L q = .error e ↔
      (L = 0 ∧ e = .zeroDivision) ∨
      (L ≠ 0 ∧ n / L < q ∧ e = .valueError) ∨
      (L ≠ 0 ∧ q ≤ n / L ∧ 16 < L ∧ e = .valueError) ∨
      (L ≠ 0 ∧ L ≤ 16 ∧ n / L = q ∧ e = .zeroDivision) := universalImpl_error_iff bits n L q e

/-- `Universal` raises only InsufficientDataError, exactly for n < 387840: for every admissible n the
selected (L, Q = 10·2^L) leave K = ⌊n/L⌋ − Q > 0 blocks and L ≤ 16. -/
theorem universal_raises (bits n : Nat) (e : PyErr) :
    universal bits n = .error e ↔ n < 387840 ∧ e = .insufficientData := universal_error_kind bits n e

/-- `LinearComplexityScatter` raises only ValueError (`LfsrLogProbability`), exactly when the oracle reports
a complexity above the length of its interleaved sequence, or that length is 0 (step_size > n).
NOTE (second review, L17): the statement includes step = 0, where the model is NOT the Python code
(`LinearComplexityScatter(x, 100, 0)`: ZeroDivisionError in `util.Scatter`; model: ok).  The version with the
precondition `1 ≤ step` in the statement is `C12ErrorsPre.scatter_raises_pre`. -/
theorem scatter_raises (n step : Nat) (mb : Option Nat) (cs : List Nat) (e : PyErr) :
    linearComplexityScatter n step mb cs = .error e ↔
      (∃ p ∈ (scatterSizes (scatterN n step mb) step).zip cs, p.1 = 0 ∨ p.1 < p.2) ∧ e = .valueError := by
  unfold linearComplexityScatter
  cases h : scatterSum (scatterSizes (scatterN n step mb) step) cs with
  | error e' =>
    have := (scatterSum_error_iff _ _ e').mp h
    simp only [Except.error.injEq]
    constructor
    · intro he; subst he; exact this
    · intro he; rw [this.2, he.2]
  | ok q =>
    have : ¬ ∃ p ∈ (scatterSizes (scatterN n step mb) step).zip cs, p.1 = 0 ∨ p.1 < p.2 := fun hh => by
      have := (scatterSum_error_iff _ _ .valueError).mpr ⟨hh, rfl⟩
      rw [h] at this; cases this
    simp [this]

/-! ### Non-overlapping template matching: ladder and exceptions of the function itself -/

/-- ★ (missing in Props/C12.lean, which only had the ladder `notmM`) `NonOverlappingTemplateMatching(bits, n,
blocks)` with default `m` and `templates` raises InsufficientDataError exactly when the block size
⌊n / blocks⌋ is below 4, ZeroDivisionError exactly for blocks = 0, and nothing else: the default templates
are non-overlapping, shorter than a block, and inside the count table. -/
theorem nonOverlapping_default_raises (bits n blocks : Nat) (e : PyErr) :
    nonOverlapping bits n blocks none none = .error e ↔
      (blocks = 0 ∧ e = .zeroDivision) ∨ (blocks ≠ 0 ∧ n / blocks < 4 ∧ e = .insufficientData) :=
  nonOverlapping_default_error_iff bits n blocks e

/-- ★ … and when it succeeds, the template length is the ladder value of the block size ⌊n / blocks⌋ ≥ 4
(`C12.nonOverlapping_template_size`), the templates are all non-overlapping templates of that length, and
there is one row of counts per complete block. -/
theorem nonOverlapping_default_params (bits n blocks : Nat) (o : NotmOut)
    (h : nonOverlapping bits n blocks none none = .ok o) :
    blocks ≠ 0 ∧ 4 ≤ n / blocks ∧ notmM (n / blocks) = some o.m ∧ o.blockSize = n / blocks ∧
      o.templates = defaultTemplates o.m ∧ o.counts.length = n / (n / blocks) :=
  nonOverlapping_default_ok bits n blocks o h

/-- `templates` without `m`: ValueError ("m is required when templates is not None"), after the division
`n // blocks`. -/
theorem nonOverlapping_templates_without_m_raises (bits n blocks : Nat) (ts : List Nat) (e : PyErr) :
    nonOverlapping bits n blocks none (some ts) = .error e ↔
      (blocks = 0 ∧ e = .zeroDivision) ∨ (blocks ≠ 0 ∧ e = .valueError) :=
  nonOverlapping_templates_without_m bits n blocks ts e

/-- `m` given (`T` = the given templates, or all non-overlapping ones of length m): ZeroDivisionError for
blocks = 0 or an empty block (blocks > n); ValueError for an overlapping template or m > block size
(`FrequencyCount`); IndexError for a template ≥ 2^m; nothing else.  No float can raise: the variance
n(2^−m − (2m−1)2^−2m) is positive. -/
theorem nonOverlapping_given_raises (bits n blocks m : Nat) (ts : Option (List Nat)) (e : PyErr) :
    nonOverlapping bits n blocks (some m) ts = .error e ↔
      (blocks = 0 ∧ e = .zeroDivision) ∨ (blocks ≠ 0 ∧ n / blocks = 0 ∧ e = .zeroDivision) ∨
      (blocks ≠ 0 ∧ n / blocks ≠ 0 ∧
        (((∃ t ∈ notmTemplates m ts, isNonOverlapping t m = false) ∧ e = .valueError) ∨
         ((∀ t ∈ notmTemplates m ts, isNonOverlapping t m = true) ∧ n / blocks < m ∧ e = .valueError) ∨
         ((∀ t ∈ notmTemplates m ts, isNonOverlapping t m = true) ∧ m ≤ n / blocks ∧
            (∃ t ∈ notmTemplates m ts, 2 ^ m ≤ t) ∧ e = .indexError))) :=
  nonOverlapping_given_error_iff bits n blocks m ts e

/-! ## B. Tests with a float-decided exception (oracle) -/

/-- ★ (missing in Props/C12.lean) the insufficient-data condition of `OverlappingTemplateMatching` as a
function (repaired, D14): InsufficientDataError exactly when there is no complete block. -/
theorem overlapping_insufficient_iff (o : ChiOracle) (bits n m bs : Nat) :
    overlappingWithF o bits n m bs = .error .insufficientData ↔ bs ≠ 0 ∧ n < bs := by
  unfold overlappingWithF
  rw [thenChi_error_iff, overlappingWith_error_iff]
  simp

/-- ★ all exceptions of `OverlappingTemplateMatching(bits, n, m, block_size)`: ZeroDivisionError for
block_size = 0, InsufficientDataError without a complete block, and ValueError from `ChiSquare` — either
because a block of fewer than m + 4 bits cannot contain five occurrences (exactly-zero probability) or
because the oracle reports that the float distribution was rejected (underflow, m ≳ 1071).
NOTE (second review, L17): the statement includes m = 0, where the model is NOT the Python code
(`OverlappingTemplateMatching(x, 10, 0, 5)`: ValueError "negative shift count"; model: ok).  The version
with the precondition `1 ≤ m` in the statement is `C12ErrorsPre.overlapping_raises_pre`. -/
theorem overlapping_raises (o : ChiOracle) (bits n m bs : Nat) (e : PyErr) :
    overlappingWithF o bits n m bs = .error e ↔
      (bs = 0 ∧ e = .zeroDivision) ∨ (bs ≠ 0 ∧ n < bs ∧ e = .insufficientData) ∨
      (bs ≠ 0 ∧ bs ≤ n ∧ (bs < m + 4 ∨ o.rejects = true) ∧ e = .valueError) := by
  unfold overlappingWithF
  rw [thenChi_error_iff, overlappingWith_error_iff]
  constructor
  · rintro ((h | h | ⟨h1, h2, h3, he⟩) | ⟨⟨a, ha⟩, hr, he⟩)
    · exact Or.inl h
    · exact Or.inr (Or.inl h)
    · exact Or.inr (Or.inr ⟨h1, h2, Or.inl h3, he⟩)
    · obtain ⟨_, _, h1, h2, _, _⟩ := overlappingWith_ok bits n m bs a ha
      have h3 : bs ≤ n := by
        rcases Nat.lt_or_ge n bs with hc | hc
        · rw [Nat.div_eq_of_lt hc] at h2; omega
        · exact hc
      exact Or.inr (Or.inr ⟨by omega, h3, Or.inr hr, he⟩)
  · rintro (h | h | ⟨h1, h2, h3 | h3, he⟩)
    · exact Or.inl (Or.inl h)
    · exact Or.inl (Or.inr (Or.inl h))
    · exact Or.inl (Or.inr (Or.inr ⟨h1, h2, h3, he⟩))
    · by_cases h4 : bs < m + 4
      · exact Or.inl (Or.inr (Or.inr ⟨h1, h2, h4, he⟩))
      · exact Or.inr ⟨overlappingWith_total bits n m bs h1 h2 (by omega), h3, he⟩

/-- ★ defaults (m = 9, block_size = 2^10 + 9 − 1 = 1032): InsufficientDataError exactly for n < 1032;
beyond that only the oracle can make it raise (it never does at m = 9: harness evidence). -/
theorem overlapping_default_raises (o : ChiOracle) (bits n : Nat) (e : PyErr) :
    overlappingF o bits n none none = .error e ↔
      (n < 1032 ∧ e = .insufficientData) ∨ (1032 ≤ n ∧ o.rejects = true ∧ e = .valueError) := by
  show overlappingWithF o bits n 9 1032 = .error e ↔ _
  rw [overlapping_raises]
  constructor
  · rintro (⟨h, _⟩ | ⟨_, h, he⟩ | ⟨_, h, h' | h', he⟩)
    · omega
    · exact Or.inl ⟨h, he⟩
    · omega
    · exact Or.inr ⟨h, h', he⟩
  · rintro (⟨h, he⟩ | ⟨h, h', he⟩)
    · exact Or.inr (Or.inl ⟨by omega, h, he⟩)
    · exact Or.inr (Or.inr ⟨by omega, h, Or.inr h', he⟩)

/-- ★ all exceptions of `BinaryMatrixRank(bits, n, r, c, k, check_size)`, for EVERY shape: ValueError for
k > min(r, c); InsufficientDataError below 38·r·c bits (when checked) or without a complete matrix;
ZeroDivisionError for a zero dimension; ValueError from `ChiSquare` for an exactly-zero probability
(c < r: full rank impossible; k = 0) outside the table branch — and, when all that passes, ValueError
exactly when the oracle reports that `ChiSquare` rejected the float `RankDistribution`. -/
theorem rank_raises (o : ChiOracle) (bits n r c k : Nat) (cs : Bool) (e : PyErr) :
    binaryMatrixRankF o bits n r c k cs = .error e ↔
      (min r c < k ∧ e = .valueError) ∨
      (k ≤ min r c ∧ cs = true ∧ n < 38 * r * c ∧ e = .insufficientData) ∨
      (k ≤ min r c ∧ ¬ (cs = true ∧ n < 38 * r * c) ∧ (c = 0 ∨ r = 0) ∧ e = .zeroDivision) ∨
      (k ≤ min r c ∧ ¬ (cs = true ∧ n < 38 * r * c) ∧ c ≠ 0 ∧ r ≠ 0 ∧ n / c < r ∧ e = .insufficientData) ∨
      (k ≤ min r c ∧ ¬ (cs = true ∧ n < 38 * r * c) ∧ c ≠ 0 ∧ r ≠ 0 ∧ r ≤ n / c ∧
        ¬ (r = c ∧ r ≥ 31 ∧ k ≤ 5) ∧ (k = 0 ∨ c < r) ∧ e = .valueError) ∨
      ((∃ out, binaryMatrixRank bits n r c k cs = .ok out) ∧ o.rejects = true ∧ e = .valueError) := by
  unfold binaryMatrixRankF
  rw [thenChi_error_iff, binaryMatrixRank_error_iff]
  constructor
  · rintro ((h | h | h | h | h) | h)
    · exact Or.inl h
    · exact Or.inr (Or.inl h)
    · exact Or.inr (Or.inr (Or.inl h))
    · exact Or.inr (Or.inr (Or.inr (Or.inl h)))
    · exact Or.inr (Or.inr (Or.inr (Or.inr (Or.inl h))))
    · exact Or.inr (Or.inr (Or.inr (Or.inr (Or.inr h))))
  · rintro (h | h | h | h | h | h)
    · exact Or.inl (Or.inl h)
    · exact Or.inl (Or.inr (Or.inl h))
    · exact Or.inl (Or.inr (Or.inr (Or.inl h)))
    · exact Or.inl (Or.inr (Or.inr (Or.inr (Or.inl h))))
    · exact Or.inl (Or.inr (Or.inr (Or.inr (Or.inr h))))
    · exact Or.inr h

/-- ★ for the admissible shapes 1 ≤ k ≤ min(r, c) (every documented use): InsufficientDataError exactly
below the NIST minimum 38·r·c (when `check_size`) or without one complete r×c matrix; ValueError exactly
when, with enough data, c < r or the float distribution underflowed (oracle); nothing else. -/
theorem rank_raises_admissible (o : ChiOracle) (bits n r c k : Nat) (cs : Bool) (e : PyErr)
    (hk : 1 ≤ k) (hkm : k ≤ min r c) :
    binaryMatrixRankF o bits n r c k cs = .error e ↔
      (((cs = true ∧ n < 38 * r * c) ∨ n / c < r) ∧ e = .insufficientData) ∨
      (¬ (cs = true ∧ n < 38 * r * c) ∧ r ≤ n / c ∧ (c < r ∨ o.rejects = true) ∧ e = .valueError) := by
  have hr : r ≠ 0 := by omega
  have hc : c ≠ 0 := by omega
  rw [rank_raises]
  constructor
  · rintro (⟨h, _⟩ | ⟨_, h1, h2, he⟩ | ⟨_, _, h | h, _⟩ | ⟨_, _, _, _, h, he⟩ |
      ⟨_, h1, _, _, h2, _, h3 | h3, he⟩ | ⟨⟨out, hout⟩, hrej, he⟩)
    · omega
    · exact Or.inl ⟨Or.inl ⟨h1, h2⟩, he⟩
    · exact absurd h hc
    · exact absurd h hr
    · exact Or.inl ⟨Or.inr h, he⟩
    · omega
    · exact Or.inr ⟨h1, h2, Or.inl h3, he⟩
    · have hne : ∀ e', binaryMatrixRank bits n r c k cs ≠ .error e' := fun e' hc' => by
        rw [hout] at hc'; cases hc'
      have h1 : ¬ (cs = true ∧ n < 38 * r * c) := fun hh =>
        hne _ ((binaryMatrixRank_error_iff bits n r c k cs _).mpr (Or.inr (Or.inl ⟨hkm, hh.1, hh.2, rfl⟩)))
      have h2 : r ≤ n / c := by
        rcases Nat.lt_or_ge (n / c) r with hlt | hge
        · exact absurd ((binaryMatrixRank_error_iff bits n r c k cs _).mpr
            (Or.inr (Or.inr (Or.inr (Or.inl ⟨hkm, h1, hc, hr, hlt, rfl⟩))))) (hne _)
        · exact hge
      exact Or.inr ⟨h1, h2, Or.inr hrej, he⟩
  · rintro (⟨h | h, he⟩ | ⟨h1, h2, h3 | h3, he⟩)
    · exact Or.inr (Or.inl ⟨hkm, h.1, h.2, he⟩)
    · by_cases h' : cs = true ∧ n < 38 * r * c
      · exact Or.inr (Or.inl ⟨hkm, h'.1, h'.2, he⟩)
      · exact Or.inr (Or.inr (Or.inr (Or.inl ⟨hkm, h', hc, hr, h, he⟩)))
    · exact Or.inr (Or.inr (Or.inr (Or.inr (Or.inl
        ⟨hkm, h1, hc, hr, h2, fun hh => by omega, Or.inr h3, he⟩))))
    · by_cases h4 : c < r
      · exact Or.inr (Or.inr (Or.inr (Or.inr (Or.inl
          ⟨hkm, h1, hc, hr, h2, fun hh => by omega, Or.inr h4, he⟩))))
      · refine Or.inr (Or.inr (Or.inr (Or.inr (Or.inr ⟨?_, h3, he⟩))))
        cases hres : binaryMatrixRank bits n r c k cs with
        | ok out => exact ⟨out, rfl⟩
        | error e' =>
          exfalso
          rcases (binaryMatrixRank_error_iff bits n r c k cs e').mp hres with
            ⟨h, _⟩ | ⟨_, h, h', _⟩ | ⟨_, _, h | h, _⟩ | ⟨_, _, _, _, h, _⟩ | ⟨_, _, _, _, _, _, h | h, _⟩
          · omega
          · exact h1 ⟨h, h'⟩
          · exact hc h
          · exact hr h
          · omega
          · omega
          · exact h4 h

/-- ★ the NIST minimum as a function of the float-aware model: with `check_size`, InsufficientDataError
exactly for n < 38·r·c, whatever the oracle says (strengthens `C12.rank_insufficient_iff`). -/
theorem rank_insufficient_iff (o : ChiOracle) (bits n r c k : Nat) (hk : 1 ≤ k) (hkm : k ≤ min r c) :
    binaryMatrixRankF o bits n r c k true = .error .insufficientData ↔ n < 38 * r * c := by
  rw [rank_raises_admissible o bits n r c k true _ hk hkm]
  have hr : 0 < r := by omega
  have hc : 0 < c := by omega
  constructor
  · rintro (⟨h | h, _⟩ | ⟨_, _, _, he⟩)
    · exact h.2
    · by_contra hge
      have h3 : 38 * r ≤ n / c := (Nat.le_div_iff_mul_le hc).mpr (by omega)
      have : r ≤ 38 * r := by omega
      omega
    · cases he
  · intro h; exact Or.inl ⟨Or.inl ⟨rfl, h⟩, rfl⟩

/-- ★ all exceptions of `RandomWalk` (repaired code, D4): ZeroDivisionError and nothing else — for the empty
string (`CumulativeSumsPValue` divides by √0), and when the random-excursions test is evaluated (J ≥ 500
cycles, J = #{k ≤ n | S_k = 0} + 1, and max_state ≥ 1) while the oracle reports a 0.0 in the float
`RandomExcursionsDistribution` (max_cnt ≥ 1075).
NOTE (second review, L17): the statement includes max_cnt = 0, where the model is NOT the Python code as far
as RESULTS go (`RandomWalk(x, 1200, 4, 0, 9)`: p-values nan for x = ±1, exact value 1; neither side raises).
The version with the precondition `1 ≤ max_cnt` in the statement is `C12ErrorsPre.randomWalk_raises_pre`. -/
theorem randomWalk_raises (excZero : Bool) (bits n ms mc msv : Nat) (e : PyErr) :
    randomWalkF excZero .repaired bits n ms mc msv = .error e ↔
      e = .zeroDivision ∧
        (n = 0 ∨ (500 ≤ (walkFrom 0 (bitList bits n)).count 0 + 1 ∧ 1 ≤ ms ∧ excZero = true)) := by
  rw [randomWalkF_error_iff]
  constructor
  · rintro (⟨h, he⟩ | ⟨out, hout, h1, h2, h3, he⟩)
    · exact ⟨he, Or.inl h⟩
    · have := (randomWalk_spec bits n ms mc msv out hout).2.2.2.1
      exact ⟨he, Or.inr ⟨by omega, h2, h3⟩⟩
  · rintro ⟨he, h | ⟨h1, h2, h3⟩⟩
    · exact Or.inl ⟨h, he⟩
    · by_cases hn : n = 0
      · exact Or.inl ⟨hn, he⟩
      · cases hres : randomWalk .repaired bits n ms mc msv with
        | error e' =>
          exact absurd ((randomWalk_repaired_error_iff bits n ms mc msv e').mp hres).1 hn
        | ok out =>
          have := (randomWalk_spec bits n ms mc msv out hres).2.2.2.1
          exact Or.inr ⟨out, rfl, by omega, h2, h3, he⟩

/-! ## C. The oracle is the ONLY difference between the float-aware functions and the exact ones -/

/-- with a clean oracle (every expected probability a valid float — all runs but the underflow shapes) the
float-aware functions ARE the exact ones of Model/Nist.lean, so every theorem of Props/C12.lean and
Props/C12More.lean about results applies verbatim. -/
theorem clean_oracle (bits n r c k m bs ms mc msv : Nat) (cs : Bool) (v : Variant) (om obs : Option Nat) :
    binaryMatrixRankF .clean bits n r c k cs = binaryMatrixRank bits n r c k cs ∧
    overlappingWithF .clean bits n m bs = overlappingWith bits n m bs ∧
    overlappingF .clean bits n om obs = overlapping bits n om obs ∧
    randomWalkF false v bits n ms mc msv = randomWalk v bits n ms mc msv := by
  refine ⟨thenChi_clean _, thenChi_clean _, thenChi_clean _, ?_⟩
  unfold randomWalkF
  cases randomWalk v bits n ms mc msv <;> simp

/-- a successful float-aware run returns exactly the exact model's result (histogram etc.), for every
oracle: the oracle can only turn a result into ValueError, never alter it. -/
theorem rank_result (o : ChiOracle) (bits n r c k : Nat) (cs : Bool) (out : RankOut) :
    binaryMatrixRankF o bits n r c k cs = .ok out ↔
      binaryMatrixRank bits n r c k cs = .ok out ∧ o.rejects = false := thenChi_ok_iff o _ out

theorem overlapping_result (o : ChiOracle) (bits n m bs : Nat) (out : OtmOut) :
    overlappingWithF o bits n m bs = .ok out ↔
      overlappingWith bits n m bs = .ok out ∧ o.rejects = false := thenChi_ok_iff o _ out

theorem randomWalk_result (excZero : Bool) (v : Variant) (bits n ms mc msv : Nat) (out : RandomWalkOut) :
    randomWalkF excZero v bits n ms mc msv = .ok out ↔
      randomWalk v bits n ms mc msv = .ok out ∧ ¬ (500 ≤ out.cycles ∧ 1 ≤ ms ∧ excZero = true) := by
  unfold randomWalkF excursionsEvaluated
  cases h : randomWalk v bits n ms mc msv with
  | error e => simp
  | ok o' =>
    dsimp only
    by_cases hc : (decide (500 ≤ o'.cycles) && decide (1 ≤ ms) && excZero) = true
    · rw [if_pos hc]
      simp only [Bool.and_eq_true, decide_eq_true_eq] at hc
      constructor
      · intro hh; cases hh
      · rintro ⟨heq, hneg⟩
        simp only [Except.ok.injEq] at heq
        subst heq
        exact absurd ⟨hc.1.1, hc.1.2, hc.2⟩ hneg
    · rw [if_neg hc]
      simp only [Bool.and_eq_true, decide_eq_true_eq] at hc
      simp only [Except.ok.injEq]
      constructor
      · intro heq; subst heq
        exact ⟨rfl, fun hh => hc ⟨⟨hh.1, hh.2.1⟩, hh.2.2⟩⟩
      · intro hh; exact hh.1

/-! ## Non-vacuity: every branch is met by a concrete input -/

-- the reviewer's shape (2, 1100, 1): the exact model succeeds, the oracle turns it into ValueError
example : (binaryMatrixRank (2 ^ 2300 - 1 - 12345) 2300 2 1100 1 false).map (·.hist) = .ok [1, 0] ∧
    binaryMatrixRankF ⟨true, false⟩ (2 ^ 2300 - 1 - 12345) 2300 2 1100 1 false = .error .valueError ∧
    (binaryMatrixRankF .clean (2 ^ 2300 - 1 - 12345) 2300 2 1100 1 false).map (·.hist) = .ok [1, 0] := by
  decide +kernel
-- admissible shape, enough data, c < r
example : binaryMatrixRankF .clean 0b101101110101 12 3 2 1 false = .error .valueError := by decide +kernel
-- fewer than 38 matrices with check_size
example : binaryMatrixRankF .clean 0b101101110101 12 2 3 1 true = .error .insufficientData := by
  decide +kernel
example : 1 ≤ 1 ∧ 1 ≤ min 2 1100 ∧ ¬ (false = true ∧ 2300 < 38 * 2 * 1100) ∧ 2 ≤ 2300 / 1100 := by decide
-- overlapping: a block shorter than m + 4; the oracle; insufficient data
example : overlappingWithF .clean 0b1011011101 10 3 6 = .error .valueError ∧
    (overlappingWithF .clean 0b1011011101 10 3 7).map (·.hist) = .ok [0, 1, 0, 0, 0, 0] ∧
    overlappingWithF ⟨true, false⟩ 0b1011011101 10 3 7 = .error .valueError ∧
    overlappingWithF ⟨true, false⟩ 0b1011011101 10 3 11 = .error .insufficientData := by decide +kernel
-- non-overlapping: ladder value 2 for block size 5; insufficient data for block size 3
example : (nonOverlapping 0b1011011101 10 2 none none).map (fun o => (o.m, o.blockSize, o.templates)) =
      .ok (2, 5, [1, 2]) ∧
    nonOverlapping 0b1011011101 10 3 none none = .error .insufficientData ∧
    nonOverlapping 0b1011011101 10 2 (some 2) (some [1, 5]) = .error .indexError ∧
    nonOverlapping 0b1011011101 10 2 (some 2) (some [3]) = .error .valueError := by decide +kernel
-- random walk with 500 cycles: the excursion oracle applies; with 499 cycles it does not
set_option maxRecDepth 20000 in
example : (randomWalk .repaired (2 ^ 998 / 3) 998 4 1075 9).map (·.cycles) = .ok 500 ∧
    randomWalkF true .repaired (2 ^ 998 / 3) 998 4 1075 9 = .error .zeroDivision ∧
    (randomWalkF true .repaired (2 ^ 998 / 3) 998 0 1075 9).map (·.cycles) = .ok 500 ∧
    (randomWalkF true .repaired (2 ^ 996 / 3) 996 4 1075 9).map (·.cycles) = .ok 499 := by decide +kernel
example : universalImpl 0b110110011101 12 2 6 = .error .zeroDivision ∧
    universalImpl 0b110110011101 12 2 7 = .error .valueError := by decide +kernel
example : linearComplexity 2000 10 [11] = .error .valueError ∧
    linearComplexity 2000 10 [] = .error .zeroDivision := by decide +kernel

end Paranoid.C12Errors
