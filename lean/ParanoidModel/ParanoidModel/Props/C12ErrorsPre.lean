/-
Props/C12ErrorsPre.lean — the raise-theorems of Props/C12Errors.lean with the parameter precondition IN THE
STATEMENT (second review, L17).

`C12Errors.scatter_raises`, `overlapping_raises`, `randomWalk_raises` are stated for every value of the
optional parameter (step_size, template length m, max_cnt).  They are true statements about the MODEL; at
the parameter value 0 the model is not the Python code (measured on /repo HEAD, `scratch/c12/edge.out` of
the second review and re-run for this file):

  * `LinearComplexityScatter(x, 100, 0)`        Python: ZeroDivisionError ("integer modulo by zero", in
    `util.Scatter`)                             model `linearComplexityScatter 100 0 none []`: ok;
  * `OverlappingTemplateMatching(x, 10, 0, 5)`  Python: ValueError ("negative shift count")
    (also block_size 4; block_size 3: both ValueError)  model `overlappingWithF .clean … 10 0 5`: ok;
  * `RandomWalk(x, 1200, 4, 0, 9)`              Python: returns, p-values nan for x = ±1
                                                model: returns, exact p-value 1 (no exception on either
                                                side: the raise-SET agrees, the result does not).

The corollaries below carry `1 ≤ step`, `1 ≤ m`, `1 ≤ max_cnt` as hypotheses, so that every instance is one
at which model and Python were compared by harness/corr/c12.py.  At the first admissible value the real code
does: `LinearComplexityScatter(x, 100, 1)` = 0.03125, `OverlappingTemplateMatching(x, 10, 1, 5)` = 0.7307…,
`RandomWalk(x, 1200, 4, 1, 9)` returns 28 finite p-values.

`scatter_size_zero_iff` / `scatter_raises_pre_nonempty` also replace the opaque "some size is 0" of the original by
its arithmetic meaning (step_size > n′, Python: ValueError "n must be positive" from `LfsrLogProbability`,
e.g. `LinearComplexityScatter(x, 100, 101)`).
-/
import ParanoidModel.Props.C12Errors
namespace Paranoid.C12ErrorsPre
open Paranoid Paranoid.Nist

/-- the i-th interleaved sequence (i < step_size) is empty exactly when fewer than i + 1 bits are used. -/
theorem scatter_size_zero_iff (n step i : Nat) (hi : i < step) :
    (n + step - 1 - i) / step = 0 ↔ n ≤ i := by
  rw [Nat.div_eq_zero_iff]
  omega

/-- `LinearComplexityScatter` with `step_size ≥ 1` (the range in which the model is the Python code):
raises only ValueError, exactly when the oracle reports a complexity above the length of its interleaved
sequence, or that length is 0. -/
theorem scatter_raises_pre (n step : Nat) (mb : Option Nat) (cs : List Nat) (e : PyErr)
    (_hstep : 1 ≤ step) :
    linearComplexityScatter n step mb cs = .error e ↔
      (∃ p ∈ (scatterSizes (scatterN n step mb) step).zip cs, p.1 = 0 ∨ p.1 < p.2) ∧ e = .valueError :=
  C12Errors.scatter_raises n step mb cs e

/-- every length paired with an oracle answer is `(n′ + step − 1 − i) / step` for an `i < step`. -/
theorem mem_scatterSizes (n step s : Nat) (h : s ∈ scatterSizes n step) :
    ∃ i, i < step ∧ s = (n + step - 1 - i) / step := by
  unfold scatterSizes at h
  rw [List.mem_map] at h
  obtain ⟨i, hi, rfl⟩ := h
  exact ⟨i, List.mem_range.mp hi, rfl⟩

/-- with `1 ≤ step_size ≤ n′` (n′ = the number of bits used, `scatterN`) no interleaved sequence is empty,
so `LinearComplexityScatter` raises exactly when the Berlekamp–Massey oracle reports a complexity above the
sequence length — never with an oracle that meets its obligation. -/
theorem scatter_raises_pre_nonempty (n step : Nat) (mb : Option Nat) (cs : List Nat) (e : PyErr)
    (_hstep : 1 ≤ step) (hn : step ≤ scatterN n step mb) :
    linearComplexityScatter n step mb cs = .error e ↔
      (∃ p ∈ (scatterSizes (scatterN n step mb) step).zip cs, p.1 < p.2) ∧ e = .valueError := by
  rw [C12Errors.scatter_raises]
  constructor
  · rintro ⟨⟨p, hp, h0 | hlt⟩, he⟩
    · exfalso
      obtain ⟨i, hi, hs⟩ := mem_scatterSizes _ _ _ (List.of_mem_zip hp).1
      rw [hs, scatter_size_zero_iff _ _ _ hi] at h0
      omega
    · exact ⟨⟨p, hp, hlt⟩, he⟩
  · rintro ⟨⟨p, hp, hlt⟩, he⟩
    exact ⟨⟨p, hp, Or.inr hlt⟩, he⟩

/-- `OverlappingTemplateMatching(bits, n, m, block_size)` with template length `m ≥ 1` (the range in which
the model is the Python code; m = 0 is `1 << -1` in Python): all exceptions. -/
theorem overlapping_raises_pre (o : ChiOracle) (bits n m bs : Nat) (e : PyErr) (_hm : 1 ≤ m) :
    overlappingWithF o bits n m bs = .error e ↔
      (bs = 0 ∧ e = .zeroDivision) ∨ (bs ≠ 0 ∧ n < bs ∧ e = .insufficientData) ∨
      (bs ≠ 0 ∧ bs ≤ n ∧ (bs < m + 4 ∨ o.rejects = true) ∧ e = .valueError) :=
  C12Errors.overlapping_raises o bits n m bs e

/-- the insufficient-data condition of `OverlappingTemplateMatching` with `m ≥ 1`. -/
theorem overlapping_insufficient_iff_pre (o : ChiOracle) (bits n m bs : Nat) (_hm : 1 ≤ m) :
    overlappingWithF o bits n m bs = .error .insufficientData ↔ bs ≠ 0 ∧ n < bs :=
  C12Errors.overlapping_insufficient_iff o bits n m bs

/-- `RandomWalk` (repaired code, D4) with `max_cnt ≥ 1` (for max_cnt = 0 Python returns nan p-values where
the model's exact value is 1; neither raises): ZeroDivisionError and nothing else, for the empty string or an
evaluated excursion test whose float distribution contains 0.0 (oracle). -/
theorem randomWalk_raises_pre (excZero : Bool) (bits n ms mc msv : Nat) (e : PyErr) (_hmc : 1 ≤ mc) :
    randomWalkF excZero .repaired bits n ms mc msv = .error e ↔
      e = .zeroDivision ∧
        (n = 0 ∨ (500 ≤ (walkFrom 0 (bitList bits n)).count 0 + 1 ∧ 1 ≤ ms ∧ excZero = true)) :=
  C12Errors.randomWalk_raises excZero bits n ms mc msv e

/-! ## Non-vacuity at the first admissible parameter value, and the excluded points of the MODEL -/

-- step_size = 1: one sequence of n bits; complexity 101 > 100 raises, complexity 50 does not
example : linearComplexityScatter 100 1 none [101] = .error .valueError ∧
    (linearComplexityScatter 100 1 none [50]).toOption.isSome = true ∧
    1 ≤ 1 ∧ 1 ≤ scatterN 100 1 none := by decide +kernel
-- step_size = 101 > n = 100: the last sequence is empty (Python: ValueError "n must be positive")
example : linearComplexityScatter 100 101 none (List.replicate 101 0) = .error .valueError := by
  decide +kernel
-- m = 1: block of 4 < m + 4 bits raises, block of 5 bits does not
example : overlappingWithF .clean 0b1011011101 10 1 4 = .error .valueError ∧
    (overlappingWithF .clean 0b1011011101 10 1 5).toOption.isSome = true := by decide +kernel
-- max_cnt = 1, 500 cycles
set_option maxRecDepth 20000 in
example : randomWalkF true .repaired (2 ^ 998 / 3) 998 4 1 9 = .error .zeroDivision ∧
    (randomWalkF false .repaired (2 ^ 998 / 3) 998 4 1 9).map (·.cycles) = .ok 500 := by decide +kernel
-- the excluded points: here the MODEL returns and the Python code raises (header)
example : (linearComplexityScatter 100 0 none []).toOption.isSome = true ∧
    (overlappingWithF .clean 0b1011011101 10 0 5).toOption.isSome = true := by decide +kernel

end Paranoid.C12ErrorsPre
