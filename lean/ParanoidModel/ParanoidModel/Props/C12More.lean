/-
Props/C12More.lean — second round for C12 ("NIST SP 800-22 statistics and p-values are computed as
specified … probability tables equal the exactly derived distributions to the printed precision"):
closes the statements that Props/C12.lean left as `def … : Prop` and adds the remaining
"statistic = definition" and "table = exact distribution" clauses.
Property theorems only; the proofs live in Proofs/Nist2*.lean.

 1. Serial: ∇²ψ²_m ≥ 0 for every bit string and every m ≥ 2 (`C12.serial_second_difference_nonneg`).
 2. LongestRuns: the recurrence behind the tables is the brute-force count for EVERY block size M
    (`C12.longestRuns_recurrence_correct`); the M = 128 and M = 10000 rows are now statements about the
    exact distribution over all 2^M blocks (M = 10000: all seven entries; NIST's printed row differs
    from the exact distribution in every entry — finding D20).
 3. ApproximateEntropy: χ² = 2n(ln 2 − ApEn(m)) ≥ 0 over ℝ for the model's exact count vectors.
 4. Rank: the model's Gaussian elimination is the span-size characterisation of C15; the recurrence of
    `RankDistribution` is the classical exact formula for every shape; `precomputed` is the exact
    distribution of 31×31 / 32×32 / 40×40 / 64×64 matrices to the 8 printed digits.
    Overlapping templates: per-block count = #{i | window i = 1^m}.
 5. Universal: the distance multiset is the definition (distance to the previous occurrence of the block).
-/
import ParanoidModel.Props.C12
import ParanoidModel.Proofs.Nist2Serial
import ParanoidModel.Proofs.Nist2Runs
import ParanoidModel.Proofs.Nist2Apen
import ParanoidModel.Proofs.Nist2Rank
import ParanoidModel.Proofs.Nist2RankAsym
import ParanoidModel.Proofs.Nist2Blocks
namespace Paranoid.C12More
open Paranoid Paranoid.Nist

/-! ## 1. Serial: the second difference is non-negative -/

/-- the second marginal of the cyclic pattern counts: summing the m-bit counts over the LAST pattern bit
(entries w and w + 2^(m−1)) gives the (m−1)-bit counts, as summing over the first bit does
(`C12.pattern_counts_marginal`). -/
theorem pattern_counts_marginal_last (l : List Bool) (m : Nat) (hm : 2 ≤ m) (hl : m ≤ l.length) :
    List.zipWith (· + ·) ((countsWrap l m).toList.take (2 ^ (m - 1)))
        ((countsWrap l m).toList.drop (2 ^ (m - 1))) = (countsWrap l (m - 1)).toList :=
  halves_countsWrap l m hm hl

/-- the cyclic counts of all m-bit patterns add up to n. -/
theorem pattern_counts_total (l : List Bool) (m : Nat) (hm : 1 ≤ m) (hl : m ≤ l.length) :
    (countsWrap l m).toList.sum = l.length ∧ (countsWrap l m).toList.length = 2 ^ m :=
  ⟨countsWrap_sum l m hm hl, countsWrap_length l m hm hl⟩

/-- convexity of m ↦ Σ_w ν_w² for the cyclic counts of any bit list:
4·Σν_{m−1}² ≤ 4·Σν_m² + Σν_{m−2}² (m ≥ 3), and 4·Σν_1² ≤ 4·Σν_2² + n².  The difference is
Σ_u (ν_{0u0} − ν_{0u1} − ν_{1u0} + ν_{1u1})². -/
theorem serial_sumSq_convex (l : List Bool) :
    (∀ k, k + 3 ≤ l.length →
      4 * sumSq (countsWrap l (k + 2)).toList ≤
        4 * sumSq (countsWrap l (k + 3)).toList + sumSq (countsWrap l (k + 1)).toList) ∧
    (2 ≤ l.length →
      4 * sumSq (countsWrap l 1).toList ≤ 4 * sumSq (countsWrap l 2).toList + l.length * l.length) :=
  ⟨fun k hk => sumSq_countsWrap_convex l k hk, sumSq_countsWrap_convex2 l⟩

/-- ★ `C12.serial_second_difference_nonneg` holds: ∇²ψ²_m = ψ²_m − 2ψ²_{m−1} + ψ²_{m−2} ≥ 0 for the
output of `Serial` on every bit string, every m_max and every m = j + 3 ≥ 3 … -/
theorem serial_second_difference_nonneg : C12.serial_second_difference_nonneg :=
  fun bits n mm o h j a b c ha hb hc => serial_d2psi_nonneg bits n mm o h j a b c ha hb hc

/-- … and for m = 2, where the code uses ψ²_0 = 0 (`v[0] = 0`): ψ²_2 − 2ψ²_1 ≥ 0. -/
theorem serial_second_difference_nonneg_m2 (bits n : Nat) (mm : Option Nat) (o : SerialOut)
    (h : serial bits n mm = .ok o) (a b : Nat) (ha : o.sq[0]? = some a) (hb : o.sq[1]? = some b) :
    2 * psiNum n 1 a ≤ psiNum n 2 b := serial_d2psi_nonneg_m2 bits n mm o h a b ha hb

/-! ## 2. LongestRuns: the recurrence and the tables -/

/-- ★ the recurrence `leCount k M` (a(i) = 2a(i−1) for i ≤ k, 2a(i−1) − 1 for i = k+1,
2a(i−1) − a(i−k−2) beyond, evaluated on a packed sliding window) is, for every k and M, the number of
M-bit strings whose longest run of ones is at most k — counted by brute force over all 2^M strings. -/
theorem longestRuns_recurrence_counts (k M : Nat) :
    leCount k M = ((List.range (2 ^ M)).map (bitsSmall M)).countP (fun l => decide (longestRun l ≤ k)) :=
  leCount_spec k M

/-- the brute-force enumeration `x ↦ bitsSmall M x`, x < 2^M, lists every list of M bits exactly once. -/
theorem bitStrings_enumerated (M : Nat) (l : List Bool) (hl : l.length = M) :
    ∃ x, (x < 2 ^ M ∧ bitsSmall M x = l) ∧ ∀ y, y < 2 ^ M ∧ bitsSmall M y = l → y = x :=
  bitsSmall_enumerates M l hl

/-- ★ `C12.longestRuns_recurrence_correct` holds: for every block size M and all class bounds, the class
counts from the recurrence are the brute-force class counts over all 2^M blocks. -/
theorem longestRuns_recurrence_correct : C12.longestRuns_recurrence_correct :=
  fun M vl vu h => lrDP_eq_exact M vl vu h

/-- ★ LongestRuns, M = 128 (unconditional): every table entry is the exact probability over all 2^128
blocks, rounded or truncated to 4 digits. -/
theorem longestRuns_table_M128 :
    rowMatches (lrRow 1) (exactRows (lrExactCounts 128 4 9) (2 ^ 128) 10000) 10000 true = true :=
  lr_table_M128_exact

set_option exponentiation.threshold 20000 in
/-- ★ LongestRuns, M = 10000 (unconditional, all seven entries): the exact distribution over all
2^10000 blocks is 0.0866, 0.2082, 0.2484, 0.1939, 0.1215 (0.1214 truncated), 0.0680, 0.0734 (0.0733);
the repaired row is this distribution rounded, NIST's printed row differs from it in every entry (rounded
and truncated) — finding D20; the row in the source is one of the two. -/
theorem longestRuns_table_M10000 :
    exactRows (lrExactCounts 10000 10 16) (2 ^ 10000) 10000 =
      [(866, 866), (2082, 2082), (2484, 2484), (1939, 1939), (1215, 1214), (680, 680), (734, 733)] ∧
    rowMatches repaired10000 (exactRows (lrExactCounts 10000 10 16) (2 ^ 10000) 10000) 10000 false = true ∧
    (nistPrinted10000.zip (exactRows (lrExactCounts 10000 10 16) (2 ^ 10000) 10000)).all
      (fun pr => !(pr.1.1 * 10000 == pr.2.1 * pr.1.2) && !(pr.1.1 * 10000 == pr.2.2 * pr.1.2)) = true ∧
    (rowSame (lrRow 2) nistPrinted10000 = true ∨ rowSame (lrRow 2) repaired10000 = true) := by
  refine ⟨lr10000_rows_exact, ?_, ?_, lr_table_M10000⟩
  · rw [lr10000_rows_exact]; exact repaired10000_matches_rows
  · rw [lr10000_rows_exact]; exact nistPrinted10000_all_differ

/-! ## 3. ApproximateEntropy: the χ² statistic is non-negative -/

/-- the multiset of non-zero counts that the model returns per level carries exactly
φ = Σ_w (ν_w/n)·ln(ν_w/n) of the full count vector (0·ln 0 = 0). -/
theorem apen_phi_of_level (n : Nat) (cnt : List Nat) :
    phiLevel n (multiset (cnt.filter (· ≠ 0))) = ((cnt.map (fun (c : Nat) => (c : ℝ) / n * Real.log ((c : ℝ) / n))).sum) :=
  phiLevel_multiset n cnt

/-- Gibbs / log-sum inequality on the conditional distribution: φ_m ≤ φ_{m+1} + ln 2 for the cyclic
pattern counts of any bit list, i.e. ApEn(m) = φ_m − φ_{m+1} ≤ ln 2. -/
theorem apen_le_log_two (l : List Bool) (m : Nat) (hm : 1 ≤ m) (hl : m + 1 ≤ l.length) :
    phi l.length (countsWrap l m).toList - phi l.length (countsWrap l (m + 1)).toList ≤ Real.log 2 := by
  have := phi_countsWrap l m hm hl
  linarith

/-- ★ `apen_chi_square_nonneg`: for the output of `ApproximateEntropy` on every bit string and every
m = i + 2 ∈ [2, m_max], the statistic χ² = 2n(ln 2 − (φ_m − φ_{m+1})) formed (over ℝ) from the model's
count multisets `levels[m−2]`, `levels[m−1]` is ≥ 0: `igamc`'s second argument is in its domain. -/
theorem apen_chi_square_nonneg (bits n : Nat) (mm : Option Nat) (o : ApenOut)
    (h : approximateEntropy bits n mm = .ok o) (i : Nat) (lo hi : List (Nat × Nat))
    (hlo : o.levels[i]? = some lo) (hhi : o.levels[i + 1]? = some hi) :
    0 ≤ 2 * (n : ℝ) * (Real.log 2 - (phiLevel n lo - phiLevel n hi)) :=
  apen_chi_nonneg bits n mm o h i lo hi hlo hhi

/-! ## 4. Rank and overlapping templates -/

/-- ★ the model's rank routine is `_BinaryMatrixRankSmall` of C15, so `2^rank` is the number of distinct
GF(2)-linear combinations of the rows (`C15.rankSmall_def`), for every matrix. -/
theorem binaryRank_is_span_rank (rows : List Nat) :
    binaryRank rows = BitSeq.rankSmall rows ∧ 2 ^ binaryRank rows = BitDefs.spanSize rows :=
  ⟨binaryRank_eq_rankSmall rows, binaryRank_span rows⟩

/-- ★ 2.5.4: the rows are the consecutive c-bit pieces of the string, the matrices the consecutive groups
of r rows, and `hist[i]` = number of matrices of rank r − i (i < k), `hist[k]`: rank ≤ r − k; the
`precomputed` table is used exactly for square matrices with r ≥ 31, k ≤ 5. -/
theorem rank_histogram (bits n r c k : Nat) (cs : Bool) (o : RankOut)
    (h : binaryMatrixRank bits n r c k cs = .ok o) :
    o.r = r ∧ o.c = c ∧ o.k = k ∧ (o.approx = true ↔ (r = c ∧ r ≥ 31 ∧ k ≤ 5)) ∧
    o.hist = (List.range (k + 1)).map (fun i =>
      ((groups ((chunks (bitList bits n) c).map natOfBits) r).map
        (fun mat => min k (r - binaryRank mat))).count i) ∧
    ∀ (rows : List Nat), groups rows r = (List.range (rows.length / r)).map (fun i => (rows.drop (i * r)).take r) :=
  let ⟨h1, h2, h3, h4, h5⟩ := binaryMatrixRank_ok bits n r c k cs o h
  ⟨h1, h2, h3, h4, h5, fun rows => groups_spec rows r⟩

/-- ★ `RankDistribution(r, c, k, allow_approximation=False)`: after the c passes of the in-place
recurrence (`rankRes` in Model/Nist.lean: exact rationals instead of floats, compared with the
implementation on every run), `res[j]` is the classical exact probability that a random
r×c matrix over GF(2) has rank j,
  ∏_{i<j} (2^c − 2^i)(2^r − 2^i) / (∏_{i<j} (2^j − 2^i) · 2^(r·c))
  [= 2^(j(r+c−j) − rc) ∏_{i<j} (1 − 2^(i−r))(1 − 2^(i−c)) / (1 − 2^(i−j))],
for EVERY shape r, c and every j ≤ r; the list has r + 1 entries.
NOTE (second review, L19): "exact probability" means this classical closed-form product, which is TAKEN AS
THE SPECIFICATION.  No theorem of the project counts the r×c matrices of rank j over GF(2).  That the values
form a distribution (sum 1 over j = 0 … min(r, c), and the returned list sums to 1) is proved from the
recurrence in Props/C12RankSum.lean. -/
theorem rankDistribution_formula (r c j : Nat) (hj : j ≤ r) :
    (rankRes r c).length = r + 1 ∧
    (rankRes r c)[j]? =
      some ((∏ i ∈ Finset.range j, ((2 : ℚ) ^ c - 2 ^ i)) * (∏ i ∈ Finset.range j, ((2 : ℚ) ^ r - 2 ^ i)) /
        ((∏ i ∈ Finset.range j, ((2 : ℚ) ^ j - 2 ^ i)) * (2 : ℚ) ^ (r * c))) :=
  ⟨rankRes_length r c, rankRes_formula r c j hj⟩

/-- the same formula as written in the literature (NIST SP 800-22 3.5):
P(rank = j) = 2^(j(r+c−j) − rc) ∏_{i<j} (1 − 2^(i−r))(1 − 2^(i−c)) / (1 − 2^(i−j)). -/
theorem rankDistribution_classical (r c j : Nat) (hj : j ≤ r) :
    (rankRes r c)[j]? = some ((2 : ℚ) ^ ((j : ℤ) * ((r : ℤ) + c - j) - (r : ℤ) * c) *
      ∏ i ∈ Finset.range j, ((1 - (2 : ℚ) ^ ((i : ℤ) - (r : ℤ))) * (1 - (2 : ℚ) ^ ((i : ℤ) - (c : ℤ))) /
        (1 - (2 : ℚ) ^ ((i : ℤ) - (j : ℤ))))) :=
  rankRes_classical r c j hj

/-- the same as a fraction of natural numbers (j ≤ min r c; for j > c the probability is 0). -/
theorem rankDistribution_fraction (r c j : Nat) (hj : j ≤ r) (hjc : j ≤ c) :
    (rankRes r c)[j]? = some ((rankProbNum r c j : ℚ) / (rankProbDen r c j : ℚ)) :=
  rankRes_frac r c j hj hjc

/-- ★ `RankDistribution.precomputed` (current source): every entry is the exact probability
P(rank = n − i), i = 0 … 5, of n×n matrices rounded or truncated to the 8 printed digits, for NIST's shape
n = 32 and for n = 31 (smallest shape that uses the table), 40, 64. -/
theorem rank_precomputed_table :
    rowMatches Paranoid.Consts.Nist.rankPrecomputed (squareRankRows 32 6 (10 ^ 8)) (10 ^ 8) true = true ∧
    rowMatches Paranoid.Consts.Nist.rankPrecomputed (squareRankRows 31 6 (10 ^ 8)) (10 ^ 8) true = true ∧
    rowMatches Paranoid.Consts.Nist.rankPrecomputed (squareRankRows 40 6 (10 ^ 8)) (10 ^ 8) true = true ∧
    rowMatches Paranoid.Consts.Nist.rankPrecomputed (squareRankRows 64 6 (10 ^ 8)) (10 ^ 8) true = true :=
  ⟨rank_precomputed_32, rank_precomputed_31_40_64⟩

/-- ★ `RankDistribution.precomputed` for EVERY shape for which the code uses it (r = c = n ≥ 31): with
pre_i the i-th entry in units of 10⁻⁸ (28878809, 57757619, 12835026, 523879, 4657, 10 — the digits of the
current source), the exact probability `res[n − i]` = P_n(rank = n − i) satisfies
(pre_i − ½)·10⁻⁸ ≤ P < (pre_i + 1)·10⁻⁸, i.e. the printed value is the exact one rounded or truncated to
8 digits, for all n ≥ 31 and i = 0 … 5 (the drift from n = 31 to ∞ is below 2^(i−31) relative). -/
theorem rank_precomputed_all_sizes (n i : Nat) (hn : 31 ≤ n) (hi : i < 6) :
    Paranoid.Consts.Nist.rankPrecomputed.map (fun p => (p.1 * 10 ^ 8 / p.2, p.1 * 10 ^ 8 % p.2)) =
      preDigits.map (fun d => (d, 0)) ∧
    ∃ P : ℚ, (rankRes n n)[n - i]? = some P ∧
      ((preDigit i : ℚ) - 1 / 2) / 10 ^ 8 ≤ P ∧ P < ((preDigit i : ℚ) + 1) / 10 ^ 8 :=
  ⟨rankPrecomputed_digits, sqP i n, rankRes_square n i (by omega), precomputed_all_sizes n i hn hi⟩

/-- ★ 2.8.4: `util.OverlappingRunsOfOnes(block, m)` is the number of positions i at which the m-bit window
block[i .. i+m−1] is the all-ones template, for every block and every m ≥ 1 … -/
theorem overlapping_count_spec (l : List Bool) (m : Nat) (hm : 1 ≤ m) :
    overlappingOnes l m =
      (List.range l.length).countP (fun i => decide (∀ j < m, l[i + j]? = some true)) :=
  overlappingOnes_spec l m hm

/-- … and `hist[i]` = number of blocks (consecutive `block_size`-bit pieces) with min(5, count) = i. -/
theorem overlapping_histogram (bits n m bs : Nat) (o : OtmOut) (h : overlappingWith bits n m bs = .ok o) :
    o.m = m ∧ o.blockSize = bs ∧ 0 < bs ∧ 1 ≤ n / bs ∧ m + 4 ≤ bs ∧
    o.hist = (List.range 6).map (fun i =>
      ((chunks (bitList bits n) bs).map (fun b => min 5 (overlappingOnes b m))).count i) :=
  overlappingWith_ok bits n m bs o h

/-! ## 5. Universal: the distances are the definition -/

/-- ★ 2.9.4: with the blocks b_0, b_1, … (consecutive L-bit pieces), `dists` is the multiset of the
K = ⌊n/L⌋ − Q values A_j, j = Q … Q+K−1, where A_j = `distsFrom [] blocks`[j] … -/
theorem universal_distances (bits n L q : Nat) (o : UniversalOut) (h : universalImpl bits n L q = .ok o) :
    o.blockSize = L ∧ o.q = q ∧ o.k = n / L - q ∧
    o.dists = multiset (((distsFrom [] ((chunks (bitList bits n) L).map natOfBits)).drop q).reverse) :=
  universalImpl_dists bits n L q o h

/-- … and A_j = 1 + (number of steps back from position j − 1 to the previous occurrence of b_j), which is
j + 1 when b_j has not occurred before (`List.idxOf` returns the length; the code's `tab[b] = −1`). -/
theorem universal_distance_def (bs : List Nat) (j : Nat) :
    (distsFrom [] bs)[j]? = (bs[j]?).map (fun b => ((bs.take j).reverse).idxOf b + 1) ∧
    (distsFrom [] bs).length = bs.length := by
  refine ⟨?_, distsFrom_length bs []⟩
  rw [distsFrom_get]; simp

/-- `multiset` is a run-length encoding: it preserves every weighted sum, in particular
Σ log₂(distance) = Σ multiplicity·log₂(distance). -/
theorem multiset_sum (g : Nat → ℝ) (vals : List Nat) :
    ((multiset vals).map (fun (p : Nat × Nat) => (p.2 : ℝ) * g p.1)).sum = (vals.map g).sum :=
  wsum_multiset g vals

/-! ## Non-vacuity -/

example : (serial 0b0011011101 10 (some 3)).map (fun o => o.sq) = .ok [52, 28, 16] ∧
    2 * psiNum 10 2 28 ≤ psiNum 10 3 16 + psiNum 10 1 52 ∧ 2 * psiNum 10 1 52 ≤ psiNum 10 2 28 := by
  decide +kernel
example : leCount 1 8 = 55 ∧ lrDPCounts 8 1 4 = [55, 94, 59, 48] := by decide +kernel
example : (approximateEntropy 0b0011011101 10 (some 2)).map (fun o => o.levels.length) = .ok 2 ∧
    (countsWrap (bitList 0b0011011101 10) 2).toList = [1, 3, 3, 3] ∧
    (countsWrap (bitList 0b0011011101 10) 3).toList = [0, 1, 1, 2, 1, 2, 2, 1] := by decide +kernel
example : binaryRank [0b110, 0b011, 0b101] = 2 ∧ BitDefs.spanSize [0b110, 0b011, 0b101] = 4 := by
  decide +kernel
example : rankRes 3 3 = [1 / 512, 49 / 512, 147 / 256, 21 / 64] ∧
    rankDistribution 3 3 2 = [21 / 64, 147 / 256, 25 / 256] := by decide +kernel
example : preDigit 0 = 28878809 ∧ preDigit 5 = 10 := by decide
example : rankProbNum 3 3 2 = 1764 ∧ rankProbDen 3 3 2 = 3072 := by decide +kernel
example : overlappingOnes [true, true, true, false, true, true] 2 = 3 := by decide +kernel
example : distsFrom [] [5, 7, 5, 5, 9, 7] = [1, 2, 2, 1, 5, 4] := by decide +kernel
example : (universalImpl 0b11_01_10_01_11_01 12 2 2).map (fun o => (o.blockSize, o.q, o.k)) = .ok (2, 2, 4) ∧
    (distsFrom [] ((chunks (bitList 0b11_01_10_01_11_01 12) 2).map natOfBits)).drop 2 = [2, 4, 2, 4] := by
  decide +kernel

end Paranoid.C12More
