/-
Props/C12RankSum.lean — `RankDistribution` is a probability distribution (property C12; second review, L19).

`C12More.rankDistribution_formula` identifies the entries of the recurrence with the CLASSICAL closed-form
product  P(r, c, j) = ∏_{i<j} (2^c − 2^i)(2^r − 2^i) / (∏_{i<j} (2^j − 2^i) · 2^(r·c)).  That product is
taken as the specification: NO theorem of this project counts the r×c matrices over GF(2) of rank j
(|{M : rank M = j}| = P(r, c, j) · 2^(r·c) is textbook, e.g. via the Gaussian binomial `Nist.gauss`, but not
proved here).  What is added here is the part of "is a distribution" that can be proved from the code's
recurrence alone:

  * the list `res` of the recurrence sums to exactly 1 after every number of passes (mass conservation of
    `res[j+1] += res[j]·(1 − pd); res[j] *= pd`), hence
  * the closed-form values sum to 1 over j = 0 … min(r, c) (they vanish for j > c), and
  * the returned list `res[-k:][::-1] + [sum(res[:-k])]` sums to 1 for every 1 ≤ k ≤ r + 1 (exact rationals;
    the float list of the implementation is checked against `abs(sum − 1) ≤ 1e-4` by `ChiSquare` itself,
    oracle `ChiOracle.badSum`).

For k = 0 Python returns `res[::-1] + [0]` (r + 2 entries, also sum 1), which `ChiSquare` rejects by its
length check (Model/NistFloat.lean, `chiValidate`).
-/
import ParanoidModel.Proofs.Nist2RankSum
namespace Paranoid.C12RankSum
open Paranoid Paranoid.Nist

/-- ★ mass conservation: the exact `res` of `RankDistribution(r, c, ·)` sums to 1, for every shape. -/
theorem rankRes_sum_one (r c : Nat) : (rankRes r c).sum = 1 := rankRes_sum r c

/-- the closed-form value at j is the j-th entry of `res` (restating `C12More.rankDistribution_formula`
through `Nist.rankP`) … -/
theorem rankP_eq_formula (r c j : Nat) :
    rankP r c j = (∏ i ∈ Finset.range j, ((2 : ℚ) ^ c - 2 ^ i)) * (∏ i ∈ Finset.range j, ((2 : ℚ) ^ r - 2 ^ i)) /
      ((∏ i ∈ Finset.range j, ((2 : ℚ) ^ j - 2 ^ i)) * (2 : ℚ) ^ (r * c)) := by
  show rankP r c j = hprod c j * hprod r j / (hprod j j * (2 : ℚ) ^ (r * c))
  unfold rankP
  rw [← gauss_closed c j]
  have := hprod_self_ne j
  have h2 : ((2 : ℚ) ^ (r * c)) ≠ 0 := pow_ne_zero _ (by norm_num)
  field_simp

/-- … and it vanishes for j > c (a rank above the number of columns is impossible: factor i = c). -/
theorem formula_zero_of_gt (r c j : Nat) (h : c < j) :
    (∏ i ∈ Finset.range j, ((2 : ℚ) ^ c - 2 ^ i)) * (∏ i ∈ Finset.range j, ((2 : ℚ) ^ r - 2 ^ i)) /
      ((∏ i ∈ Finset.range j, ((2 : ℚ) ^ j - 2 ^ i)) * (2 : ℚ) ^ (r * c)) = 0 := by
  have : ∏ i ∈ Finset.range j, ((2 : ℚ) ^ c - 2 ^ i) = 0 :=
    Finset.prod_eq_zero (Finset.mem_range.mpr h) (sub_self _)
  rw [this, zero_mul, zero_div]

theorem list_sum_map_range (f : Nat → ℚ) : ∀ n, ((List.range n).map f).sum = ∑ j ∈ Finset.range n, f j
  | 0 => by simp
  | n + 1 => by
    rw [List.range_succ, List.map_append, List.sum_append, list_sum_map_range f n, Finset.sum_range_succ]
    simp

/-- ★ the classical closed-form probabilities sum to 1 over j = 0 … r … -/
theorem formula_sum_one (r c : Nat) :
    ∑ j ∈ Finset.range (r + 1),
      ((∏ i ∈ Finset.range j, ((2 : ℚ) ^ c - 2 ^ i)) * (∏ i ∈ Finset.range j, ((2 : ℚ) ^ r - 2 ^ i)) /
        ((∏ i ∈ Finset.range j, ((2 : ℚ) ^ j - 2 ^ i)) * (2 : ℚ) ^ (r * c))) = 1 := by
  have h := rankRes_sum r c
  rw [rankRes_eq, list_sum_map_range] at h
  rw [← h]
  exact Finset.sum_congr rfl (fun j _ => (rankP_eq_formula r c j).symm)

/-- ★ … equivalently over the possible ranks j = 0 … min(r, c). -/
theorem formula_sum_one_min (r c : Nat) :
    ∑ j ∈ Finset.range (min r c + 1),
      ((∏ i ∈ Finset.range j, ((2 : ℚ) ^ c - 2 ^ i)) * (∏ i ∈ Finset.range j, ((2 : ℚ) ^ r - 2 ^ i)) /
        ((∏ i ∈ Finset.range j, ((2 : ℚ) ^ j - 2 ^ i)) * (2 : ℚ) ^ (r * c))) = 1 := by
  rw [← formula_sum_one r c]
  apply Finset.sum_subset
  · intro j hj
    rw [Finset.mem_range] at hj ⊢
    omega
  · intro j hj hnj
    rw [Finset.mem_range] at hj hnj
    exact formula_zero_of_gt r c j (by omega)

/-- ★ the list returned by `RankDistribution(r, c, k, allow_approximation=False)` (exact rationals) sums to 1
for every admissible k: k top ranks plus the lumped tail. -/
theorem rankDistribution_sum_one (r c k : Nat) (hk1 : 1 ≤ k) (_hk : k ≤ r + 1) :
    (rankDistribution r c k).sum = 1 := by
  unfold rankDistribution
  rw [if_neg (by omega), List.sum_append, List.sum_singleton, ← rankRes_length r c,
    sum_reverse_take_add, rankRes_sum]

/-- for k = 0 Python's `res[-0:][::-1] + [sum(res[:-0])]` is the whole reversed list plus a 0: also sum 1, but
r + 2 entries. -/
theorem rankDistribution_zero (r c : Nat) :
    (rankDistribution r c 0).sum = 1 ∧ (rankDistribution r c 0).length = r + 2 := by
  unfold rankDistribution
  rw [if_pos rfl]
  refine ⟨?_, by simp [rankRes_length]⟩
  rw [List.sum_append, List.sum_reverse, rankRes_sum]; simp

/-! ## Non-vacuity -/

example : rankDistribution 3 3 2 = [21 / 64, 147 / 256, 25 / 256] ∧ 1 ≤ 2 ∧ 2 ≤ 3 + 1 := by decide +kernel
example : rankRes 2 3 = [1 / 64, 21 / 64, 21 / 32] := by decide +kernel

end Paranoid.C12RankSum
