/-
Props/C12Stats.lean — third round for C12 ("NIST SP 800-22 statistics and p-values are computed as
specified"): the tests whose STATISTIC had no Lean statement (review table of C12, status "d").
Property theorems only; the definitions are in Model/NistStats.lean (no Mathlib, evaluated by the driver ops
`nist.lcstat`, `nist.notmstat`, `nist.largematrix`, `nist.scatterbits`, `nist.rotate` against the real
functions on every run), the proofs in Proofs/NistStats*.lean.

Bit order, everywhere: the string is ε₁ … εₙ = bit 0 … bit n−1 of the Python int `bits` (least significant
bit first, `C12.bitList_spec`); block i = 0, 1, … of size M holds bits i·M … i·M + M − 1 in this order
(`util.SplitSequence`: `(bits >> i·M) & (2^M − 1)`), an incomplete last block is ignored.

 1. LinearComplexity (2.10): each block value is the TRUE length of the shortest LFSR generating the block
    (C14 composed: no oracle left); the code's integer binning (`length <= median − 3` …) is NIST's binning of
    T = (−1)^M (L − μ) + 2/9 into (−∞, −2.5], (−2.5, −1.5], …, (2.5, ∞) for even M and its mirror image for
    odd M; with the shipped π tables the χ² is NIST's Σ (νᵢ − N πᵢ)² / (N πᵢ) for every M.
 2. NonOverlappingTemplateMatching (2.7): per block and template the count is the number of hits of NIST's
    scan (slide by 1 after a miss, by m after a hit), given as a recursive specification; μ, σ², χ² as exact
    rationals, σ² > 0.
 3. LargeBinaryMatrixRank / LinearComplexityScatter (extended suite): which sub-matrix / which interleaved
    sequences (index formulas), GF(2) rank = span rank of exactly that matrix, shortest-LFSR length of exactly
    those sequences, the p-value (table entry) / the arguments of BinomialCdf as exact expressions.
 4. Invariances for the INTEGER API: `bitList` of `util.ReverseBits(bits, n)` / of the rotated int is the
    reversed / rotated list, hence Frequency, Runs, Serial, ApproximateEntropy, cusum invariances of
    Props/C12.lean hold for the functions `bits ↦ …` themselves.

Still float / oracle only (NOT proved here): every tail function (igamc, erfc, scipy binom.cdf), i.e. the
value of each p-value; the float-underflow oracles of Props/C12Errors.lean; Spectral (2.6), which has no exact
model at all (see DESIGN section 7: the comparison |S_j|² < n·ln 20 is between an algebraic and a
transcendental number — a kernel computation can bound it but there is no exact finite criterion to state).
-/
import ParanoidModel.Props.C12More
import ParanoidModel.Props.C12Errors
import ParanoidModel.Props.C14Wrapper
import ParanoidModel.Props.C15
import ParanoidModel.Proofs.NistStatsLc
import ParanoidModel.Proofs.NistStatsNotm
import ParanoidModel.Proofs.NistStatsExt
namespace Paranoid.C12Stats
open Paranoid Paranoid.Nist Paranoid.NistStats

/-! ## 0. Blocks -/

/-- block order / bit order: the blocks every block-wise test works on are, as bit lists,
block i = [bits_{i·M}, …, bits_{i·M+M−1}], i < ⌊n/M⌋, and as integers `(bits >> i·M) mod 2^M`
(= `util.SplitSequence`, C15 `splitSequence_def`). -/
theorem blocks_spec (bits n M : Nat) :
    chunks (bitList bits n) M =
      (List.range (n / M)).map (fun i => (List.range M).map (fun j => bits.testBit (i * M + j))) ∧
    (chunks (bitList bits n) M).map natOfBits = BitDefs.splitDef bits n M ∧
    BitDefs.splitDef bits n M = (List.range (n / M)).map (blockInt bits M) :=
  ⟨chunks_bitList bits n M, chunks_bitList_int bits n M, rfl⟩

/-! ## 1. LinearComplexity (NIST 2.10) -/

/-- ★ the value recorded for block i is the length of the SHORTEST LFSR generating
bits_{i·M}, …, bits_{i·M+M−1} (in this order), for every bit string, length and block size … -/
theorem linearComplexity_block_values (bits n M : Nat) :
    blockComplexities bits n M =
      (List.range (n / M)).map (fun i =>
        Lfsr.shortestLfsr ((List.range M).map (fun j => bits.testBit (i * M + j)))) ∧
    (blockComplexities bits n M).length = n / M ∧ ∀ c ∈ blockComplexities bits n M, c ≤ M :=
  ⟨blockComplexities_eq bits n M, blockComplexities_length bits n M, blockComplexities_le bits n M⟩

/-- … and that is the value `berlekamp_massey.LinearComplexity(block_i, M)` returns END TO END (Python
wrapper, `to_bytes`, pybind11, either C++ variant: C14), within the C++ size limit M ≤ 2^30. -/
theorem linearComplexity_block_values_real_code (v : BMCpp.Variant) (bits n M i : Nat) (hM : M ≤ 2 ^ 30)
    (hi : i < n / M) :
    ∃ L : Nat, (blockComplexities bits n M)[i]? = some L ∧
      BMCpp.linearComplexityCpp v (blockInt bits M i) M = .ok (some (L : Int)) := by
  refine ⟨Lfsr.shortestLfsr ((List.range M).map (fun j => bits.testBit (i * M + j))), ?_, ?_⟩
  · rw [blockComplexities_eq, List.getElem?_map, List.getElem?_range hi]; rfl
  · exact C14Wrapper.nist_block_linear_complexity v bits i M hM

/-- ★ the integer criterion by which `LinearComplexityImpl` bins a block (`median = (M + 1) // 2`;
class 0 for `L <= median − 3`, 6 for `L >= median + 3`, else `L − median + 3`) is NIST's class of
T = (−1)^M (L − μ) + 2/9, μ = M/2 + (9 + (−1)^(M+1))/36 − (M/3 + 2/9)/2^M (exact rationals;
ν₀: T ≤ −2.5, ν₁: −2.5 < T ≤ −1.5, …, ν₆: T > 2.5) when M is even, and the mirrored class 6 − class(T) when
M is odd — for EVERY M and L (no size hypothesis). -/
theorem linearComplexity_class_criterion (M L : Nat) :
    lcClass ((M + 1) / 2) L = if M % 2 = 0 then nistLcClass (lcT M L) else 6 - nistLcClass (lcT M L) :=
  lcClass_eq_nist M L

/-- T is never exactly on a class boundary −2.5, −1.5, …, 2.5 (T = integer ± ε with 0 < ε < ½), so the result
does not depend on which end of NIST's intervals is closed. -/
theorem linearComplexity_T_off_boundary (M L : Nat) (j : ℤ) : lcT M L ≠ (j : ℚ) + 1 / 2 :=
  lcT_off_boundary M L j

/-- the π table: the literals in the source are NIST's π₀ … π₆ = 1/96, 1/32, 1/8, 1/2, 1/4, 1/16, 1/48 for
even M and the same list mirrored for odd M; NIST's printed decimals are these rounded to 6 digits. -/
theorem linearComplexity_pi_table :
    Paranoid.Consts.Nist.linCompPiEven.map qOf = nistLcPi ∧
    Paranoid.Consts.Nist.linCompPiOdd.map qOf = nistLcPi.reverse ∧
    (∀ M, codeLcPi M = if M % 2 = 0 then Paranoid.Consts.Nist.linCompPiEven.map qOf
      else Paranoid.Consts.Nist.linCompPiOdd.map qOf) ∧
    nistLcPi.map (fun p => (p * 10 ^ 6 + 1 / 2).floor) = [10417, 31250, 125000, 500000, 250000, 62500, 20833] ∧
    nistLcPi.sum = 1 := by
  have h1 : Paranoid.Consts.Nist.linCompPiEven.map qOf = nistLcPi := by
    rw [lincomp_pi_consts.1]; simp [qOf, nistLcPi]
  have h2 : Paranoid.Consts.Nist.linCompPiOdd.map qOf = nistLcPi.reverse := by
    rw [lincomp_pi_consts.2]; simp [qOf, nistLcPi]
  refine ⟨h1, h2, ?_, by decide +kernel, by decide +kernel⟩
  intro M
  rw [h1, h2]; rfl

/-- ★ NIST 2.10.4 for the whole test, as a function of the bit string: when `LinearComplexity(bits, n, M)`
returns, M ≥ 10 and there are N = ⌊n/M⌋ ≥ 200 blocks; with Lᵢ the shortest-LFSR length of block i
(`linearComplexity_block_values`) and ν = NIST's histogram of the classes of Tᵢ,
 * the histogram `v` handed to `ChiSquare` is ν for even M and ν reversed for odd M,
 * the statistic `ChiSquare` computes from `v` and the shipped `pi` is NIST's χ² = Σᵢ (νᵢ − N πᵢ)² / (N πᵢ)
   (p₁ = igamc(3, χ²/2): float tail),
 * Σ νᵢ = N, and
 * q = Σᵢ xᵢ where 2^(−xᵢ) = `LfsrCount(M, Lᵢ)/2^M` is the probability that a random M-bit block has linear
   complexity Lᵢ (`C12.linearComplexity_count`), N ≤ q (so `BinomialCdf(N − 1, q − 1)`, the second p-value
   P[Bin(q − 1, ½) ≤ N − 1], has natural arguments; its value is float tail). -/
theorem linearComplexity_statistic (bits n M : Nat) (o : LinCompOut)
    (h : linearComplexityBits bits n M = .ok o) :
    10 ≤ M ∧ M * 200 ≤ n ∧ o.blockSize = M ∧ o.nblocks = n / M ∧ 200 ≤ o.nblocks ∧
    o.hist = (if M % 2 = 0 then nistLcHist M (blockComplexities bits n M)
      else (nistLcHist M (blockComplexities bits n M)).reverse) ∧
    lcChi o = chiSquare (nistLcHist M (blockComplexities bits n M)) nistLcPi ∧
    (nistLcHist M (blockComplexities bits n M)).sum = n / M ∧
    (∃ xs : List Nat, List.Forall₂ (fun c x => lfsrNegLogProb M c = .ok x) (blockComplexities bits n M) xs ∧
      o.q = xs.sum) ∧
    o.nblocks ≤ o.q := by
  obtain ⟨h10, h200, himpl⟩ := linearComplexity_ok n M _ o h
  obtain ⟨_, hbs, hnb, hhist, hq⟩ := linearComplexityImpl_ok M _ o himpl
  rw [blockComplexities_length] at hnb
  have hN : 200 ≤ n / M := (Nat.le_div_iff_mul_le (by omega)).mpr (by rw [Nat.mul_comm]; exact h200)
  obtain ⟨xs, hx, hs⟩ := sumNegLogProb_spec M _ _ hq
  refine ⟨h10, h200, hbs, hnb, by omega, ?_, ?_, ?_, ⟨xs, hx, hs⟩, ?_⟩
  · rw [hhist, lcHist_eq_nist]
  · unfold lcChi; rw [hhist, hbs, lcChi_eq_nist]
  · rw [nistLcHist_sum, blockComplexities_length]
  · have := forall2_sum_ge M _ _ hx
    rw [blockComplexities_length] at this
    omega

/-- χ² ≥ 0: the second argument of igamc is in its domain. -/
theorem linearComplexity_chi_nonneg (o : LinCompOut) : 0 ≤ lcChi o := by
  unfold lcChi
  rw [chiSquare_eq_chiSq]
  apply chiSq_nonneg
  intro p hp
  unfold codeLcPi nistLcPi at hp
  split at hp <;> simp at hp <;> rcases hp with h | h | h | h | h | h | h <;> subst h <;> norm_num

/-- as a function of the bit string the test raises InsufficientDataError exactly below the documented minimum
(block size < 10 or fewer than 200 blocks) and nothing else: Berlekamp–Massey always answers with a value
≤ M, once per block. -/
theorem linearComplexity_raises (bits n M : Nat) (e : PyErr) :
    linearComplexityBits bits n M = .error e ↔ (M < 10 ∨ n < M * 200) ∧ e = .insufficientData :=
  C12Errors.linearComplexity_raises_of_oracle_ok n M _ e (blockComplexities_length bits n M)
    (blockComplexities_le bits n M)

/-! ## 2. NonOverlappingTemplateMatching (NIST 2.7) -/

/-- ★ NIST's scan (2.7.4 (2): compare the window with the template; on a hit count and move the window by m,
otherwise by 1) — `notmW`, a recursive specification independent of the implementation — returns, for every
template that cannot overlap itself (`IsNonOverlappingTemplate`), the number of ALL positions p ≤ |block| − m
at which the template occurs, which is what the implementation reads off `FrequencyCount(block, n, m, False)`.
Template bit j (value `t`, bit j = `(t >> j) & 1`) is compared with block bit p + j; the label
`format(t, "0mb")` in the result prints these bits in REVERSE sequence order. -/
theorem nonOverlapping_scan_spec (l : List Bool) (m t : Nat) (hm : 1 ≤ m)
    (hno : isNonOverlapping t m = true) :
    notmW l m t = (if l.length < m then 0 else
      ((List.range (l.length - m + 1)).map (fun p => natOfBits ((l.drop p).take m))).count t) :=
  notmW_eq_occCount l m t hm hno

/-- two occurrences of a non-overlapping template are at least m positions apart. -/
theorem nonOverlapping_occurrences_disjoint (l : List Bool) (m t d : Nat)
    (hno : isNonOverlapping t m = true) (hd1 : 1 ≤ d) (hdm : d < m)
    (h0 : natOfBits (l.take m) = t) : natOfBits ((l.drop d).take m) ≠ t :=
  fun hd => no_overlap l m t d hno hd1 hdm h0 hd

/-- ★ the whole test: when `NonOverlappingTemplateMatching(bits, n, blocks, m, templates)` returns (template
length m ≥ 1 when given explicitly), the block size is ⌊n/blocks⌋, the blocks are the consecutive pieces
(`blocks_spec`), every template is non-overlapping and fits a block, and `counts[j][i]` = W of NIST's scan of
block j for template i.  From these, per template i: μ = (M − m + 1)/2^m, σ² = M(1/2^m − (2m − 1)/2^(2m)),
χ²ᵢ = Σⱼ (Wⱼᵢ − μ)²/σ² (`notmChis`), p = igamc(N/2, χ²/2) (float tail). -/
theorem nonOverlapping_statistic (bits n nblocks : Nat) (m : Option Nat) (ts : Option (List Nat))
    (o : NotmOut) (hm : ∀ m', m = some m' → 1 ≤ m')
    (h : nonOverlapping bits n nblocks m ts = .ok o) :
    o.blockSize = n / nblocks ∧ 1 ≤ o.m ∧
    (∀ t ∈ o.templates, isNonOverlapping t o.m = true) ∧
    (o.counts ≠ [] → o.m ≤ o.blockSize) ∧
    o.counts = (chunks (bitList bits n) o.blockSize).map (fun b => o.templates.map (fun t => notmW b o.m t)) ∧
    notmChis o = (List.range o.templates.length).map (fun i =>
      notmChi o.blockSize o.m (o.counts.filterMap (·[i]?))) := by
  have hlen : ∀ bs, ∀ b ∈ chunks (bitList bits n) bs, b.length = bs := fun bs b hb => chunk_length _ bs b hb
  have key : ∀ (m' : Nat) (T : List Nat), 1 ≤ m' →
      notmImpl (chunks (bitList bits n) (n / nblocks)) (n / nblocks) m' T = .ok o →
      o.blockSize = n / nblocks ∧ 1 ≤ o.m ∧ (∀ t ∈ o.templates, isNonOverlapping t o.m = true) ∧
      (o.counts ≠ [] → o.m ≤ o.blockSize) ∧
      o.counts = (chunks (bitList bits n) o.blockSize).map (fun b => o.templates.map (fun t => notmW b o.m t)) := by
    intro m' T hm' hh
    obtain ⟨h1, h2, h3, h4, h5, h6⟩ := notmImpl_ok _ _ m' T o hm' (hlen _) hh
    rw [h1, h2, h3]
    refine ⟨rfl, hm', h4, ?_, h6⟩
    intro hne
    apply h5
    intro hc
    apply hne
    rw [h6, hc]; rfl
  unfold nonOverlapping at h
  by_cases h0 : nblocks = 0
  · rw [if_pos h0] at h; cases h
  · rw [if_neg h0] at h
    cases m with
    | none =>
      cases ts with
      | some T => cases h
      | none =>
        simp only at h
        cases hM : notmM (n / nblocks) with
        | none => rw [hM] at h; cases h
        | some m' =>
          rw [hM] at h
          simp only at h
          have hm' : 1 ≤ m' := by
            unfold notmM at hM
            split_ifs at hM <;> cases hM <;> omega
          obtain ⟨a, b, c, d, e⟩ := key m' _ hm' h
          exact ⟨a, b, c, d, e, rfl⟩
    | some m' =>
      simp only at h
      by_cases hz : n / nblocks = 0
      · rw [if_pos hz] at h; cases h
      · rw [if_neg hz] at h
        obtain ⟨a, b, c, d, e⟩ := key m' _ (hm m' rfl) h
        exact ⟨a, b, c, d, e, rfl⟩

/-- σ² > 0 for every template length and every non-empty block (2^m > 2m − 1), χ² ≥ 0: the division is
defined and igamc's argument is in its domain. -/
theorem nonOverlapping_variance_pos (M m : Nat) (hM : 1 ≤ M) (ws : List Nat) :
    0 < notmVar M m ∧ 0 ≤ notmChi M m ws :=
  ⟨notmVar_pos M m hM, notmChi_nonneg M m hM ws⟩

/-! ## 3. extended_nist_suite -/

/-- ★ `LargeBinaryMatrixRank`: result entry j exists iff (64·2^j)² ≤ n and is (size, rank), size = 64·2^j, where
rank is the GF(2) rank (2^rank = number of distinct linear combinations of the rows, C15) of the size × size
matrix whose entry (i, c) is bit i·size + c of the string — the FIRST size² bits, row-major, least significant
bit = column 0.  The p-value is the table entry `ASYMPTOTIC_RANK_SF[size − rank]` (0 beyond the table): a
decimal literal, no float computation (`largeRankP`). -/
theorem largeRank_statistic (bits n : Nat) (res : List (Nat × Nat))
    (h : largeBinaryMatrixRank bits n = .ok res) (j : Nat) :
    4096 ≤ n ∧
    res[j]? = (if 64 * 2 ^ j * (64 * 2 ^ j) ≤ n
      then some (64 * 2 ^ j, binaryRank (largeRankMatrix bits (64 * 2 ^ j))) else none) ∧
    2 ^ binaryRank (largeRankMatrix bits (64 * 2 ^ j)) = BitDefs.spanSize (largeRankMatrix bits (64 * 2 ^ j)) ∧
    (largeRankMatrix bits (64 * 2 ^ j)).length = 64 * 2 ^ j ∧
    ∀ i c, i < 64 * 2 ^ j →
      (largeRankMatrix bits (64 * 2 ^ j))[i]?.map (fun row => row.testBit c) =
        some (decide (c < 64 * 2 ^ j) && bits.testBit (i * (64 * 2 ^ j) + c)) := by
  refine ⟨?_, largeRank_get bits n res h j, (C12More.binaryRank_is_span_rank _).2,
    largeRankMatrix_length _ _, fun i c hi => largeRankMatrix_entry bits _ i c hi⟩
  by_contra hc
  have := (C12.largeRank_insufficient_iff bits n).mpr (by omega)
  obtain ⟨e, he⟩ := this
  rw [h] at he; cases he

/-- the same matrix and the same rank through the real primitives as modelled for C15:
`util.SplitSequence(bits & (2^(s²) − 1), s², s)` is `largeRankMatrix bits s` and `util.BinaryMatrixRank` of it
(table-driven path for s ≥ 50) is the rank of the model. -/
theorem largeRank_real_code (bits s : Nat) (hs : 0 < s) :
    BitSeq.splitSequence (bits % 2 ^ (s * s)) (s * s) s = .ok (largeRankMatrix bits s) ∧
    BitSeq.binaryMatrixRank ((largeRankMatrix bits s).map Int.ofNat) = .ok (binaryRank (largeRankMatrix bits s)) := by
  constructor
  · rw [C15.splitSequence_def, if_neg (by omega)]
    unfold BitDefs.splitDef largeRankMatrix blockInt
    rw [Nat.mul_div_cancel _ hs]
    congr 1
    apply List.map_congr_left
    intro i hi
    have hi' := List.mem_range.mp hi
    apply Nat.eq_of_testBit_eq
    intro c
    simp only [Nat.testBit_mod_two_pow, Nat.testBit_shiftRight]
    by_cases hc : c < s
    · have : i * s + c < s * s := by
        have : (i + 1) * s ≤ s * s := Nat.mul_le_mul_right s hi'
        rw [Nat.add_mul] at this; omega
      simp [hc, this]
    · simp [hc]
  · obtain ⟨r, hr, hspan⟩ := C15.binaryMatrixRank_def (largeRankMatrix bits s)
    rw [hr]
    congr 1
    have h2 := (C12More.binaryRank_is_span_rank (largeRankMatrix bits s)).2
    exact Nat.pow_right_injective (Nat.le_refl 2) (by show 2 ^ r = 2 ^ _; rw [hspan, h2])

/-- ★ `LinearComplexityScatter`: with n' = min(n, step·max_block_size) the effective length, the test forms the
`step` interleaved sequences i = 0 … step − 1 consisting of bits i, i + step, i + 2·step, … below n'
(⌈(n' − i)/step⌉ of them, in this order), takes the TRUE shortest-LFSR length Lᵢ of each, and
q = Σᵢ xᵢ with 2^(−xᵢ) = P(linear complexity of a random sequence of that length = Lᵢ); step ≤ q, and
p = `BinomialCdf(step − 1, q − 1)` = P[Bin(q − 1, ½) ≤ step − 1] (float tail). -/
theorem scatter_statistic (bits n step : Nat) (mb : Option Nat) (o : ScatterOut)
    (h : linearComplexityScatterBits bits n step mb = .ok o) :
    o.n = scatterN n step mb ∧
    o.sizes = (List.range step).map (fun i => (o.n + step - 1 - i) / step) ∧
    (∀ i t, 0 < step → (t < (o.n + step - 1 - i) / step ↔ i + step * t < o.n)) ∧
    scatterComplexities bits o.n step = (List.range step).map (fun i =>
      Lfsr.shortestLfsr ((List.range ((o.n + step - 1 - i) / step)).map (fun t => bits.testBit (i + step * t)))) ∧
    (∃ xs : List Nat,
      List.Forall₂ (fun (sc : Nat × Nat) x => lfsrNegLogProb sc.1 sc.2 = .ok x)
        (o.sizes.zip (scatterComplexities bits o.n step)) xs ∧ o.q = xs.sum) ∧
    step ≤ o.q := by
  unfold linearComplexityScatterBits linearComplexityScatter at h
  cases hq : scatterSum (scatterSizes (scatterN n step mb) step)
      (scatterComplexities bits (scatterN n step mb) step) with
  | error e => rw [hq] at h; cases h
  | ok q =>
    rw [hq] at h
    simp only [Except.ok.injEq] at h
    subst h
    obtain ⟨xs, hx, hs⟩ := scatterSum_spec _ _ _ hq
    refine ⟨rfl, rfl, fun i t hs => scatter_index _ step i t hs, scatterComplexities_eq _ _ _, ⟨xs, hx, hs⟩, ?_⟩
    have := forall2_sum_ge' _ _ hx
    rw [List.length_zip, scatterSizes_length, scatterComplexities_length, Nat.min_self] at this
    simp only
    omega

/-- the same sequences and values through the real primitives (C15 `Scatter`, C14 `LinearComplexity`): for the
string `b` the code passes to `util.Scatter` (the n'-bit truncation of `bits`: `b < 2^n'`, same bits below n'),
ANY result with the specification C15 proves for `Scatter` (`IsScatter`) is, stream by stream, the integer the
model uses, and the wrapped C++ Berlekamp–Massey returns the model's Lᵢ on it (size limit 2^30). -/
theorem scatter_real_code (v : BMCpp.Variant) (bits b n' step : Nat) (res : List Nat) (hs : 0 < step)
    (hb : b < 2 ^ n') (hbits : ∀ j < n', b.testBit j = bits.testBit j)
    (hres : BitDefs.IsScatter b step res) (i : Nat) (hi : i < res.length)
    (hsize : (n' + step - 1 - i) / step ≤ 2 ^ 30) :
    res[i] = scatterSeqInt bits step i ((n' + step - 1 - i) / step) ∧
    ∃ L : Nat, (scatterComplexities bits n' step)[i]? = some L ∧
      BMCpp.linearComplexityCpp v res[i] (((n' + step - 1 - i) / step : Nat) : Int) = .ok (some (L : Int)) := by
  have e1 : res[i] = scatterSeqInt bits step i ((n' + step - 1 - i) / step) := by
    rw [isScatter_stream b n' step res hb hs hres i hi, scatterSeqInt_congr b bits n' step i hs hbits]
  refine ⟨e1, ?_⟩
  obtain ⟨L, h1, _, h3, _⟩ := C14Wrapper.linearComplexity_is_shortest_lfsr_bits v
    (scatterSeqInt bits step i ((n' + step - 1 - i) / step)) ((n' + step - 1 - i) / step) hsize
    (scatterSeqInt_lt _ _ _ _)
  refine ⟨L, ?_, by rw [e1]; exact h1⟩
  have hi' : i < step := by rw [hres.1] at hi; exact hi
  rw [scatterComplexities_eq, List.getElem?_map, List.getElem?_range hi', h3, bitsOf_scatterSeqInt]
  rfl

/-! ## 4. Invariances for the integer API -/

/-- ★ `util.ReverseBits(bits, n)`, whenever it returns, returns an int whose bit list is the reversed list … -/
theorem reverseBits_bitList (bits n r : Nat) (h : BitSeq.reverseBits bits n = .ok r) :
    bitList r n = (bitList bits n).reverse := by
  rcases C15.reverseBits_def bits n with ⟨_, h2⟩ | ⟨_, h2⟩
  · rw [h2] at h; cases h
  · rw [h2] at h
    simp only [Except.ok.injEq] at h
    rw [← h, bitList_reverseDef]

/-- … it does return for every well-formed string … -/
theorem reverseBits_ok (bits n : Nat) (h : bits < 2 ^ n) :
    ∃ r, BitSeq.reverseBits bits n = .ok r ∧ bitList r n = (bitList bits n).reverse :=
  ⟨_, C15.reverseBits_wf bits n h, bitList_reverseDef bits n⟩

/-- ★ … and the cyclic rotation of the int, `(bits >> j) | ((bits & (2^j − 1)) << (n − j))`, j = k mod n, has the
rotated bit list, for every well-formed string. -/
theorem rotateInt_bitList (bits n k : Nat) (h : bits < 2 ^ n) :
    bitList (rotateInt bits n k) n = (bitList bits n).rotate k := bitList_rotateInt bits n k h

/-- Frequency is invariant under reversal and rotation of the int (and complement: `C12.frequency_complement`). -/
theorem frequency_invariant (bits n k r : Nat) (h : bits < 2 ^ n) (hr : BitSeq.reverseBits bits n = .ok r) :
    frequency r n = frequency bits n ∧ frequency (rotateInt bits n k) n = frequency bits n := by
  unfold frequency
  rw [reverseBits_bitList bits n r hr, bitList_rotateInt bits n k h, ones_reverse]
  refine ⟨rfl, ?_⟩
  have : ones ((bitList bits n).rotate k) = ones (bitList bits n) := by
    unfold ones; exact (List.rotate_perm _ k).count_eq true
  rw [this]

/-- Runs is invariant under reversal of the int (and complement: `C12.runs_complement`). -/
theorem runs_invariant (bits n r : Nat) (hr : BitSeq.reverseBits bits n = .ok r) :
    runs r n = runs bits n := by
  unfold runs
  rw [reverseBits_bitList bits n r hr, ones_reverse, runsCount_reverse]

/-- ★ Serial and ApproximateEntropy — the complete results: every Σν², every count multiset, hence every ψ²,
∇ψ², ∇²ψ², ApEn and p-value — are invariant under every cyclic rotation of the int, for every m_max. -/
theorem serial_apen_invariant (bits n k : Nat) (mm : Option Nat) (h : bits < 2 ^ n) :
    serial (rotateInt bits n k) n mm = serial bits n mm ∧
    approximateEntropy (rotateInt bits n k) n mm = approximateEntropy bits n mm := by
  have hc : ∀ m, 1 ≤ m → m ≤ n →
      (countsWrap (bitList (rotateInt bits n k) n) m).toList = (countsWrap (bitList bits n) m).toList := by
    intro m h1 h2
    rw [bitList_rotateInt bits n k h]
    exact countsWrap_rotate _ m k h1 (by rw [bitList_length]; exact h2)
  have hs : ∀ m, serialWith (rotateInt bits n k) n m = serialWith bits n m := by
    intro m
    unfold serialWith
    by_cases hm : m > n
    · rw [if_pos hm, if_pos hm]
    · rw [if_neg hm, if_neg hm]
      cases m with
      | zero => simp only [sumSqChain]
      | succ m' => rw [hc (m' + 1) (by omega) (by omega)]
  have ha : ∀ m, apenWith (rotateInt bits n k) n m = apenWith bits n m := by
    intro m
    unfold apenWith
    by_cases hm : m + 1 > n
    · rw [if_pos hm, if_pos hm]
    · rw [if_neg hm, if_neg hm, hc (m + 1) (by omega) (by omega)]
  exact ⟨hs _, ha _⟩

/-- cusum: the forward statistic of the reversed int is the backward statistic of the int, and vice versa
(repaired code, D4). -/
theorem cusum_invariant (bits n r ms mc msv : Nat) (o o' : RandomWalkOut)
    (hr : BitSeq.reverseBits bits n = .ok r)
    (ho : randomWalk .repaired bits n ms mc msv = .ok o)
    (ho' : randomWalk .repaired r n ms mc msv = .ok o') :
    o'.zFwd = o.zBwd ∧ o'.zBwd = o.zFwd := by
  obtain ⟨_, hf, hb, _⟩ := C12.randomWalk_statistics bits n ms mc msv o ho
  obtain ⟨_, hf', hb', _⟩ := C12.randomWalk_statistics r n ms mc msv o' ho'
  rw [reverseBits_bitList bits n r hr] at hf' hb'
  constructor
  · exact C12.cusum_reversal (bitList bits n) o'.zFwd o.zBwd hb hf'
  · refine (C12.cusum_reversal (bitList bits n).reverse o.zFwd o'.zBwd hb' ?_).symm
    rw [List.reverse_reverse]; exact hf

/-! ## Non-vacuity: concrete, non-trivial inputs (kernel evaluation) -/

/- M even / odd, T on both sides of every class boundary; integer criterion = rational definition -/
example : lcMu 10 = 167 / 32 ∧ lcT 10 5 = 1 / 288 ∧ lcT 10 2 = -863 / 288 ∧ lcT 10 8 = 865 / 288 ∧
    lcT 11 6 = -35 / 18432 ∧ lcT 11 3 = 55261 / 18432 := by decide +kernel
example : (List.range 12).map (fun L => nistLcClass (lcT 10 L)) = [0, 0, 0, 1, 2, 3, 4, 5, 6, 6, 6, 6] ∧
    (List.range 12).map (lcClass ((10 + 1) / 2)) = [0, 0, 0, 1, 2, 3, 4, 5, 6, 6, 6, 6] := by decide +kernel
example : (List.range 13).map (fun L => nistLcClass (lcT 11 L)) = [6, 6, 6, 6, 5, 4, 3, 2, 1, 0, 0, 0, 0] ∧
    (List.range 13).map (lcClass ((11 + 1) / 2)) = [0, 0, 0, 0, 1, 2, 3, 4, 5, 6, 6, 6, 6] := by decide +kernel
/- 200 blocks of 10 bits (M even: v = ν) and of 11 bits (M odd: v = ν reversed); all seven classes occur -/
example : (linearComplexityBits (0x2b7e151628aed2a6abf7158809cf4f3c ^ 17 % 2 ^ 2000) 2000 10).map
      (fun o => (o.hist, o.q, o.nblocks, lcChi o)) = .ok ([4, 7, 33, 99, 44, 10, 3], 424, 200, 597 / 100) ∧
    nistLcHist 10 (blockComplexities (0x2b7e151628aed2a6abf7158809cf4f3c ^ 17 % 2 ^ 2000) 2000 10) =
      [4, 7, 33, 99, 44, 10, 3] := by decide +kernel
example : (linearComplexityBits (0x2b7e151628aed2a6abf7158809cf4f3c ^ 19 % 2 ^ 2200) 2200 11).map
      (fun o => (o.hist, o.q)) = .ok ([6, 15, 48, 112, 12, 7, 0], 392) ∧
    nistLcHist 11 (blockComplexities (0x2b7e151628aed2a6abf7158809cf4f3c ^ 19 % 2 ^ 2200) 2200 11) =
      [0, 7, 12, 112, 48, 15, 6] := by decide +kernel
example : blockComplexities 0b1011001110001111 16 8 = [4, 5] ∧
    Lfsr.shortestLfsr ((List.range 8).map (fun j => (0b1011001110001111 : Nat).testBit (1 * 8 + j))) = 5 := by
  decide +kernel
example : linearComplexityBits 5 1999 10 = .error .insufficientData ∧
    linearComplexityBits 5 2000 9 = .error .insufficientData := by decide +kernel
/- template with value 0b100 (sequence order 0,0,1): scan of 0010010001 finds 3 occurrences -/
example : isNonOverlapping 0b100 3 = true ∧ isNonOverlapping 0b101 3 = false ∧
    notmW (bitList 0b1000100100 10) 3 0b100 = 3 ∧
    (countsNoWrap (bitList 0b1000100100 10) 3).toList = [1, 2, 2, 0, 3, 0, 0, 0] := by decide +kernel
/- for a template that overlaps itself the scan and the occurrence count differ: the hypothesis is needed -/
example : notmW (bitList 0b11111 5) 2 0b11 = 2 ∧ (countsNoWrap (bitList 0b11111 5) 2).toList = [0, 0, 0, 4] := by
  decide +kernel
example : (nonOverlapping 0x13a5_96c7_1e0f 48 2 (some 3) (some [1, 4])).map
      (fun o => (o.blockSize, o.counts, notmChis o)) = .ok (24, [[3, 3], [4, 3]], [13 / 9, 1 / 9]) ∧
    notmMean 24 3 = 11 / 4 ∧ notmVar 24 3 = 9 / 8 := by decide +kernel
example : (nonOverlapping 0xf3a1_16c7_1e0f 48 2 none none).map (fun o => (o.m, o.templates, o.counts, notmChis o)) =
    .ok (2, [1, 2], [[3, 3], [5, 6]], [65 / 12, 61 / 12]) := by decide +kernel
example : largeRankMatrix 0b110_011_101 3 = [0b101, 0b011, 0b110] ∧ binaryRank (largeRankMatrix 0b110_011_101 3) = 2 := by
  decide +kernel
example : largeRankP Paranoid.Consts.Nist.asymptoticRankSf 64 63 = 711212 / 1000000 ∧
    largeRankP Paranoid.Consts.Nist.asymptoticRankSf 64 20 = 0 := by decide +kernel
example : (linearComplexityScatterBits 0xd3a5_96c7_1e0f_55aa 64 3 (some 10)).map (fun o => (o.n, o.sizes, o.q)) =
    .ok (30, [10, 10, 10], 12) ∧ scatterSeqInt 0xd3a5_96c7_1e0f_55aa 3 1 10 = 877 ∧
    scatterComplexities 0xd3a5_96c7_1e0f_55aa 30 3 = [4, 2, 6] := by decide +kernel
example : BitSeq.reverseBits 0b0011011101 10 = .ok 0b1011101100 ∧ rotateInt 0b0011011101 10 3 = 0b1010011011 ∧
    bitList (rotateInt 0b0011011101 10 3) 10 = (bitList 0b0011011101 10).rotate 3 := by decide +kernel
example : serial (rotateInt 0b0011011101 10 7) 10 (some 3) = serial 0b0011011101 10 (some 3) ∧
    (serial 0b0011011101 10 (some 3)).map (fun o => o.sq) = .ok [52, 28, 16] := by decide +kernel

end Paranoid.C12Stats
