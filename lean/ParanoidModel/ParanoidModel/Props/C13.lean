/-
Props/C13.lean — C13, decision-rule part: "A sub-test is failed exactly when the Fisher
combination of its p-values is below the fail level, is repeated exactly while that combination
does not exceed the combination of the repeat level, and the entry points return True exactly
when some sub-test failed."

NOT decided here (and not claimed): the first two sentences of C13 (p-values of a good
generator are not systematically small; the documented weak generators fail the documented
tests) — they are statements about distributions.

Everything is universally quantified over the number type `α` and `N : Num α`: the comparison
`<` (so ties, NaN semantics, any ordering), the `== 0` test and EVERY value of the float tail
`Igamc(k, Σ -log p)` of CombinedPValue, over every fail / repeat level, every minimum repetition
count, and every history of test outcomes (named lists — also empty, with names that disappear
in later runs —, single numbers, InsufficientDataError).  "`… = .ok …`" means the call returned
(the only exception inside is math.log's in CombinedPValue).
Helper lemmas: Proofs/Suite.lean.
-/
import ParanoidModel.Proofs.Suite
namespace Paranoid.C13
open Paranoid Paranoid.Suite

variable {α : Type}

/-- CombinedPValue's three concrete cases: empty sample raises ValueError, a single p-value is
returned as is, a sample whose (Python) minimum equals 0 gives 0; otherwise the float tail. -/
theorem combined_shortcuts (N : Num α) (p q : α) (ps : List α) :
    combinedPValue N [] = .error .valueError ∧
    combinedPValue N [p] = .ok p ∧
    (N.eqZero (pyMin N p (q :: ps)) = true → combinedPValue N (p :: q :: ps) = .ok N.zero) ∧
    (N.eqZero (pyMin N p (q :: ps)) = false →
      combinedPValue N (p :: q :: ps) = N.igamc (p :: q :: ps)) := by
  refine ⟨rfl, rfl, ?_, ?_⟩ <;> intro h <;> simp [combinedPValue, h]

/-- a single float / int result is treated as `[("result", p)]`. -/
theorem scalar_is_result (N : Num α) (ts : TS α) (p : α) :
    run N ts (.scalar p) = run N ts (.named [("result", p)]) := rfl

/-- THE RULE, after any history of runs of a structure created with levels `fail`, `rep`:
for every sub-test name with a recorded state there are recorded p-values `pv` whose
combination `c` is the recorded combined p-value, and
  FAILED    ↔ c < fail
  PASSED    ↔ ¬ c < fail ∧ CombinedPValue([rep]*len(pv)) < c
  UNDECIDED ↔ ¬ c < fail ∧ ¬ CombinedPValue([rep]*len(pv)) < c     (ties are UNDECIDED / not failed). -/
theorem state_rule (N : Num α) (fail rep : α) (minRep : Nat) (os : List (Outcome α)) (ts : TS α)
    (h : runHistory N (TS.init fail rep minRep) os = .ok ts) (name : String) (st : TState)
    (hst : dictGet name ts.state = some st) :
    ∃ pv c, dictGet name ts.pvalues = some pv ∧ dictGet name ts.combined = some c ∧
      combinedPValue N pv = .ok c ∧
      (st = .failed ↔ N.lt c fail = true) ∧
      (st = .passed ↔ N.lt c fail = false ∧
        ∃ rp, combinedPValue N (List.replicate pv.length rep) = .ok rp ∧ N.lt rp c = true) ∧
      (st = .undecided ↔ N.lt c fail = false ∧
        ∃ rp, combinedPValue N (List.replicate pv.length rep) = .ok rp ∧ N.lt rp c = false) := by
  obtain ⟨hf, hr, _, _, hinv⟩ := runHistory_spec N _ ts os h
  have hi := hinv (inv_init N fail rep minRep)
  obtain ⟨pv, c, h1, h2, h3⟩ := hi.decided name st hst
  rw [hf, hr] at h3
  obtain ⟨s1, s2, s3, s4⟩ := stateOf_spec N _ _ pv c st h3
  exact ⟨pv, c, h1, h2, s1, s2, s3, s4⟩

/-- every name that has p-values has a state, the number of runs is the length of the history. -/
theorem history_bookkeeping (N : Num α) (fail rep : α) (minRep : Nat) (os : List (Outcome α))
    (ts : TS α) (h : runHistory N (TS.init fail rep minRep) os = .ok ts) :
    ts.runs = os.length ∧ ts.fail = fail ∧ ts.rep = rep ∧ ts.minRep = minRep ∧
    ∀ name pv, dictGet name ts.pvalues = some pv → ∃ st, dictGet name ts.state = some st := by
  obtain ⟨hf, hr, hm, hruns, hinv⟩ := runHistory_spec N _ ts os h
  refine ⟨by simpa [TS.init] using hruns, hf, hr, hm, (hinv (inv_init N fail rep minRep)).hasState⟩

/-- `finished` exactly as coded: after InsufficientDataError the structure is finished (and
nothing else changes but the run counter); after a result with pairwise different names it is
finished iff no sub-test OF THIS RESULT is UNDECIDED and the minimum number of repetitions is
reached; `Run` returns `finished`. -/
theorem finished_rule (N : Num α) (ts ts' : TS α) (o : Outcome α) (fin : Bool)
    (h : run N ts o = .ok (ts', fin)) :
    fin = ts'.finished ∧ ts'.runs = ts.runs + 1 ∧
    (o = .insufficient → ts' = { ts with runs := ts.runs + 1, finished := true }) ∧
    (∀ items, asNamed o = some items → (items.map (·.1)).Nodup →
      (ts'.finished = true ↔
        (∀ name ∈ items.map (·.1), dictGet name ts'.state ≠ some TState.undecided) ∧
        ts'.minRep ≤ ts'.runs)) := by
  obtain ⟨_, _, _, hruns, hfin, _⟩ := run_spec N ts ts' o fin h
  refine ⟨hfin, hruns, ?_, fun items ho hnd => run_finished N ts ts' o items fin ho hnd h⟩
  intro ho
  subst ho
  rw [run_insufficient] at h
  cases h; rfl

/-- `Failed()` ↔ some sub-test is FAILED ↔ some sub-test's combination is below the fail
level. -/
theorem failed_rule (N : Num α) (fail rep : α) (minRep : Nat) (os : List (Outcome α)) (ts : TS α)
    (h : runHistory N (TS.init fail rep minRep) os = .ok ts) :
    (failed ts = true ↔ ∃ name, dictGet name ts.state = some TState.failed) ∧
    (failed ts = true ↔ ∃ name pv c, dictGet name ts.pvalues = some pv ∧
      combinedPValue N pv = .ok c ∧ N.lt c fail = true) := by
  obtain ⟨hf, _, _, _, hinv⟩ := runHistory_spec N _ ts os h
  have hi := hinv (inv_init N fail rep minRep)
  have hf' : ts.fail = fail := hf
  refine ⟨failed_iff N ts hi, ?_⟩
  rw [failed_iff_comb N ts hi, hf']

/-- TestSource's loop repeats exactly while some structure is unfinished: one round skips the
finished structures, runs every unfinished one exactly once on fresh bits and counts the
structures still unfinished; with count 0 the loop returns, otherwise it goes round again. -/
theorem testSource_repeats (N : Num α) (outcomes : Nat → Nat → Outcome α) (fuel r : Nat)
    (tests : List (TS α)) :
    (∀ tests' u, runRound N (outcomes r) 0 tests = .ok (tests', u) →
      PW (RoundStep N (outcomes r)) 0 tests tests' ∧ u = unfinished tests') ∧
    (unfinished tests = 0 →
      sourceLoop N outcomes fuel r tests (unfinished tests) = .ok (some tests)) ∧
    (unfinished tests ≠ 0 →
      sourceLoop N outcomes (fuel + 1) r tests (unfinished tests) =
        match runRound N (outcomes r) 0 tests with
        | .error e => .error e
        | .ok (tests', u) => sourceLoop N outcomes fuel (r + 1) tests' u) :=
  ⟨fun tests' u h => runRound_spec N _ 0 tests tests' u h,
   (sourceLoop_step N outcomes fuel r tests).1, (sourceLoop_step N outcomes fuel r tests).2⟩

/-- TestSource: when it returns, every selected test is finished and satisfies the rule's
invariant with the given levels, and the return value is True exactly when some sub-test of some
test is FAILED (`None` when no test was selected). -/
theorem testSource_rule (N : Num α) (nTests : Nat) (fail rep : α) (minRep : Nat)
    (outcomes : Nat → Nat → Outcome α) (fuel : Nat) (tests : List (TS α)) (ret : Option Bool)
    (h : testSource N nTests fail rep minRep outcomes fuel = .ok (some (tests, ret))) :
    (nTests = 0 → ret = none ∧ tests = []) ∧
    (nTests ≠ 0 → ∃ b, ret = some b ∧
      (b = true ↔ ∃ ts ∈ tests, ∃ name, dictGet name ts.state = some TState.failed) ∧
      ∀ ts ∈ tests, ts.finished = true ∧ ts.fail = fail ∧ ts.rep = rep ∧ Inv N ts) := by
  unfold testSource at h
  by_cases hn : nTests = 0
  · simp only [hn, if_true] at h
    cases h
    exact ⟨fun _ => ⟨rfl, rfl⟩, fun h' => (h' hn).elim⟩
  · simp only [hn, if_false] at h
    refine ⟨fun h' => (hn h').elim, fun _ => ?_⟩
    split at h
    · cases h
    · cases h
    · rename_i tests' hloop
      cases h
      obtain ⟨hfin, hgood⟩ := sourceLoop_spec N outcomes fuel 0 _ tests nTests fail rep
        (unfinished_replicate fail rep minRep nTests).symm
        (good_replicate N fail rep minRep nTests) hloop
      exact ⟨_, rfl, any_failed_iff N fail rep tests hgood,
        fun ts hts => ⟨hfin ts hts, (hgood ts hts).1, (hgood ts hts).2.1, (hgood ts hts).2.2⟩⟩

/-- TestBitString: every selected test is run exactly once with fail level = repeat level, and
the return value is True exactly when some sub-test is FAILED. -/
theorem testBitString_rule (N : Num α) (nTests : Nat) (level : α) (outcome : Nat → Outcome α)
    (tests : List (TS α)) (b : Bool)
    (h : testBitString N nTests level outcome = .ok (tests, b)) :
    (b = true ↔ ∃ ts ∈ tests, ∃ name, dictGet name ts.state = some TState.failed) ∧
    ∀ ts ∈ tests, ts.runs = 1 ∧ ts.fail = level ∧ ts.rep = level ∧ Inv N ts := by
  unfold testBitString at h
  split at h
  · cases h
  · rename_i tests' hall
    cases h
    have hg := runAll_good N outcome 0 _ tests level level hall (fun ts hts => by
      rw [List.eq_of_mem_replicate hts]
      exact ⟨⟨rfl, rfl, inv_init N level level 1⟩, rfl⟩)
    exact ⟨any_failed_iff N level level tests (fun ts hts => (hg ts hts).1),
      fun ts hts => ⟨(hg ts hts).2, (hg ts hts).1.1, (hg ts hts).1.2.1, (hg ts hts).1.2.2⟩⟩

/-! ## Non-vacuity: a concrete number type (per-mille integers, float tail := product/1000) -/

def milli : Num Nat :=
  { lt := fun a b => decide (a < b), eqZero := fun a => a == 0, zero := 0,
    igamc := fun ps => .ok (ps.foldl (fun acc p => acc * p / 1000) 1000) }

/-- fail level 1‰, repeat level 10‰: 500‰ passes; exactly the repeat level is UNDECIDED (tie)
and is repeated; exactly the fail level is not FAILED (tie); below it is FAILED. -/
example :
    ((runHistory milli (TS.init 1 10 1) [.named [("a", 500), ("b", 10), ("c", 1), ("d", 0)]]).map
      (fun ts => (ts.state, ts.finished, failed ts))) =
    .ok ([("a", .passed), ("b", .undecided), ("c", .undecided), ("d", .failed)], false, true) := by
  decide +kernel

/-- the name `b` disappears in the second run: it stays UNDECIDED but the structure finishes;
a scalar is stored under "result"; InsufficientDataError finishes the structure. -/
example :
    ((runHistory milli (TS.init 1 10 1) [.named [("a", 500), ("b", 10)], .named [("a", 400)]]).map
      (fun ts => (ts.state, ts.finished, ts.runs))) =
      .ok ([("a", .passed), ("b", .undecided)], true, 2) ∧
    ((runHistory milli (TS.init 1 10 3) [.scalar 700, .insufficient]).map
      (fun ts => (ts.state, ts.finished, ts.runs))) = .ok ([("result", .passed)], true, 2) := by
  decide +kernel

/-- TestSource with two tests: the second needs a second round (UNDECIDED at the repeat level),
the first is not run again; the source is not failed. -/
example :
    ((testSource milli 2 1 10 1
      (fun r i => if i = 0 then .scalar 500 else if r = 0 then .scalar 10 else .scalar 900) 5).map
      (fun o => o.map (fun p => (p.1.map (fun ts => (ts.runs, ts.finished)), p.2)))) =
    .ok (some ([(1, true), (2, true)], some false)) := by decide +kernel

end Paranoid.C13
