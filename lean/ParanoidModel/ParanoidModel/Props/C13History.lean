/-
Props/C13History.lean — C13, decision-rule part, stated in terms of the HISTORY of runs.

Props/C13.lean states the rule for "recorded p-values `pv`" (an existential list); nothing there
says that the recorded list is what the runs returned: on the two-run history `twoRuns` at the
end of this file a mutant `Run` that stores only the newest p-value satisfies the conclusion of
`C13.state_rule` and violates the conclusions of this file (ONE instance; that the mutant satisfies
`C13.state_rule` on every history is plausible but NOT proved).
Here the rule is stated as the property words it: after ANY history of runs of a new
TestStructure, with `returned name os` = all p-values the runs `os` returned under `name`, in
order (single floats / ints count under "result", InsufficientDataError returns nothing):

* `pvalues_are_history`  the list recorded under `name` IS `returned name os`;
* `state_rule`           FAILED / PASSED / UNDECIDED ↔ the comparison of
                         CombinedPValue(returned name os) with the fail level and with
                         CombinedPValue([repeat] * number of returned values); no entry iff nothing
                         was returned under the name;
* `failed_rule`          Failed() ↔ some name's returned p-values combine below the fail level;
* `finished_rule`        `finished` after the history `os ++ [o]`, for ANY result list (names may
                         repeat): no decision made while merging `o` came out UNDECIDED and
                         min_repetitions ≤ number of runs; `finished_rule_distinct_names` is the
                         reading "no sub-test of the last result is UNDECIDED";
* `testSource_history`, `testBitString_history`  every structure of the entry points is the history
                         of the outcomes of its own test (run exactly in the rounds in which it
                         was unfinished), and the returned bool ↔ some sub-test of some test
                         fails by the rule on ITS returned p-values.

Quantification as in Props/C13.lean: every number type and comparison semantics `N : Num α`
(ties, NaN), every value of the float tail of CombinedPValue, every fail / repeat level, every
minimum repetition count, every history.  "`… = .ok ts`" = no `Run` raised (the only exception
is math.log's inside CombinedPValue).  Helper lemmas: Proofs/SuiteHistory.lean.
-/
import ParanoidModel.Proofs.SuiteHistory
import ParanoidModel.Props.C13
namespace Paranoid.C13History
open Paranoid Paranoid.Suite

variable {α : Type}

/-- After any history of runs of a new structure the p-values recorded under `name` are exactly
the p-values the runs returned under `name`, in order; a name under which nothing was returned
has no entry. -/
theorem pvalues_are_history (N : Num α) (fail rep : α) (minRep : Nat) (os : List (Outcome α))
    (ts : TS α) (h : runHistory N (TS.init fail rep minRep) os = .ok ts) (name : String) :
    dictGet name ts.pvalues =
      if (returned name os).isEmpty then none else some (returned name os) :=
  history_pvalues N fail rep minRep os ts h name

/-- one more run appends what it returned (any structure, not only one reached from `init`). -/
theorem run_appends (N : Num α) (ts ts' : TS α) (o : Outcome α) (fin : Bool)
    (h : run N ts o = .ok (ts', fin)) (name : String) :
    pvalsOf ts' name = pvalsOf ts name ++ outcomeVals name o :=
  (run_pvals N ts ts' o fin h).1 name

/-- THE RULE in terms of the history.  With `pv := returned name os`:
no p-value returned under `name` ⇒ the name has no state, no combined value, no list;
otherwise the recorded list is `pv`, the recorded combination is `c = CombinedPValue(pv)`, and
  FAILED    ↔ c < fail
  PASSED    ↔ ¬ c < fail ∧ CombinedPValue([rep] * len(pv)) < c
  UNDECIDED ↔ ¬ c < fail ∧ ¬ CombinedPValue([rep] * len(pv)) < c. -/
theorem state_rule (N : Num α) (fail rep : α) (minRep : Nat) (os : List (Outcome α)) (ts : TS α)
    (h : runHistory N (TS.init fail rep minRep) os = .ok ts) (name : String) :
    ((returned name os).isEmpty = true →
      dictGet name ts.state = none ∧ dictGet name ts.combined = none ∧
      dictGet name ts.pvalues = none) ∧
    ((returned name os).isEmpty = false →
      ∃ c st, dictGet name ts.pvalues = some (returned name os) ∧
        combinedPValue N (returned name os) = .ok c ∧
        dictGet name ts.combined = some c ∧ dictGet name ts.state = some st ∧
        (st = .failed ↔ N.lt c fail = true) ∧
        (st = .passed ↔ N.lt c fail = false ∧
          ∃ rp, combinedPValue N (List.replicate (returned name os).length rep) = .ok rp ∧
            N.lt rp c = true) ∧
        (st = .undecided ↔ N.lt c fail = false ∧
          ∃ rp, combinedPValue N (List.replicate (returned name os).length rep) = .ok rp ∧
            N.lt rp c = false)) := by
  obtain ⟨h1, h2⟩ := history_state N fail rep minRep os ts h name
  refine ⟨fun he => ?_, fun he => ?_⟩
  · obtain ⟨a, b, c⟩ := h1 he
    exact ⟨c, b, a⟩
  · obtain ⟨c, st, hs, hp, hc, hst⟩ := h2 he
    obtain ⟨s1, s2, s3, s4⟩ := stateOf_spec N fail rep _ c st hs
    exact ⟨c, st, hp, s1, hc, hst, s2, s3, s4⟩

/-- a sub-test is FAILED after the history iff the Fisher combination of ALL p-values it
returned so far is below the fail level (the sentence of the property). -/
theorem failed_iff_history (N : Num α) (fail rep : α) (minRep : Nat) (os : List (Outcome α))
    (ts : TS α) (h : runHistory N (TS.init fail rep minRep) os = .ok ts) (name : String) :
    dictGet name ts.state = some TState.failed ↔
      ∃ c, combinedPValue N (returned name os) = .ok c ∧ N.lt c fail = true := by
  obtain ⟨h1, h2⟩ := state_rule N fail rep minRep os ts h name
  constructor
  · intro hst
    cases he : (returned name os).isEmpty with
    | true => rw [(h1 he).1] at hst; cases hst
    | false =>
      obtain ⟨c, st, _, hc, _, hst', hf, _, _⟩ := h2 he
      rw [hst] at hst'; cases hst'
      exact ⟨c, hc, hf.1 rfl⟩
  · rintro ⟨c, hc, hlt⟩
    obtain ⟨c', st, _, hc', _, hst', hf, _, _⟩ := h2 (combinedPValue_ne_nil N _ c hc)
    rw [hc] at hc'; cases hc'
    rw [hst', hf.2 hlt]

/-- `Failed()` ↔ some sub-test's returned p-values combine below the fail level. -/
theorem failed_rule (N : Num α) (fail rep : α) (minRep : Nat) (os : List (Outcome α)) (ts : TS α)
    (h : runHistory N (TS.init fail rep minRep) os = .ok ts) :
    failed ts = true ↔
      ∃ name c, combinedPValue N (returned name os) = .ok c ∧ N.lt c fail = true :=
  history_failed N fail rep minRep os ts h

/-- "the decision for the p-values `pv` is UNDECIDED", spelled out. -/
theorem undecided_iff (N : Num α) (fail rep : α) (pv : List α) :
    isUndecided N fail rep pv = true ↔
      ∃ c rp, combinedPValue N pv = .ok c ∧ N.lt c fail = false ∧
        combinedPValue N (List.replicate pv.length rep) = .ok rp ∧ N.lt rp c = false :=
  isUndecided_iff N fail rep pv

/-- `finished` as coded, for ANY result list (no assumption on the names): after the history
`os ++ [o]` whose last run returned the list `items`, the structure is finished iff
(1) none of the decisions made while merging `items` — one after each item `it`, for everything
returned under `it`'s name up to and including that item — came out UNDECIDED, and
(2) min_repetitions ≤ number of runs.
The real code counts `undecided += 1` per item, so with a name occurring twice in one result a
first UNDECIDED decision keeps the test unfinished even when the second decision for the same
name is PASSED (reproduced on the real TestStructure: result [("a",0.005),("a",0.9)], levels
1e-9 / 0.01 → state {a: PASSED}, Run returns False). -/
theorem finished_rule (N : Num α) (fail rep : α) (minRep : Nat) (os : List (Outcome α))
    (o : Outcome α) (items : List (String × α)) (ts : TS α) (ho : asNamed o = some items)
    (h : runHistory N (TS.init fail rep minRep) (os ++ [o]) = .ok ts) :
    ts.finished = true ↔
      (∀ pre it suf, items = pre ++ it :: suf →
        isUndecided N fail rep (returned it.1 os ++ itemVals it.1 (pre ++ [it])) = false) ∧
      minRep ≤ os.length + 1 :=
  history_finished N fail rep minRep os o items ts ho h

/-- `finished` when the names of the last result are pairwise different (true of every test
registered in `TESTS`: template / block-size / state labels are distinct by construction — read
off the code, not proved): finished iff NO sub-test of the last result is UNDECIDED for ALL the
p-values it returned so far, and min_repetitions ≤ number of runs. -/
theorem finished_rule_distinct_names (N : Num α) (fail rep : α) (minRep : Nat)
    (os : List (Outcome α)) (o : Outcome α) (items : List (String × α)) (ts : TS α)
    (ho : asNamed o = some items) (hnd : (items.map (·.1)).Nodup)
    (h : runHistory N (TS.init fail rep minRep) (os ++ [o]) = .ok ts) :
    ts.finished = true ↔
      (∀ name ∈ items.map (·.1),
        isUndecided N fail rep (returned name (os ++ [o])) = false) ∧
      minRep ≤ os.length + 1 := by
  rw [finished_rule N fail rep minRep os o items ts ho h]
  have hret : ∀ name, returned name (os ++ [o]) = returned name os ++ itemVals name items := by
    intro name
    rw [returned_append, returned_cons, returned_nil, List.append_nil]
    simp [outcomeVals, ho]
  constructor
  · rintro ⟨a, b⟩
    refine ⟨fun name hn => ?_, b⟩
    obtain ⟨it, hit, rfl⟩ := List.mem_map.1 hn
    obtain ⟨pre, suf, heq⟩ := List.append_of_mem hit
    have := a pre it suf heq
    rw [(itemVals_prefix_of_nodup items pre suf it hnd heq).1] at this
    rw [hret]; exact this
  · rintro ⟨a, b⟩
    refine ⟨fun pre it suf heq => ?_, b⟩
    have hmem : it.1 ∈ items.map (·.1) := by
      rw [heq]; simp
    have := a it.1 hmem
    rw [hret] at this
    rw [(itemVals_prefix_of_nodup items pre suf it hnd heq).1]
    exact this

/-- a run that raised InsufficientDataError finishes the structure whatever the history. -/
theorem finished_insufficient (N : Num α) (ts : TS α) :
    run N ts .insufficient = .ok ({ ts with runs := ts.runs + 1, finished := true }, true) :=
  run_insufficient N ts

/-- TestSource, in terms of histories.  When it returns:
* there is one structure per selected test;
* the structure at position `i` is the history of what test `i` returned in the rounds
  `0 … k-1` (`column outcomes i k`) for some `k`: it was unfinished after each shorter history —
  the test is repeated exactly while it is unfinished — and is finished after `k` runs; so its
  recorded p-values are everything test `i` returned in those rounds;
* the return value is True exactly when for some test `i` some sub-test's returned p-values
  combine below the fail level. -/
theorem testSource_history (N : Num α) (nTests : Nat) (fail rep : α) (minRep : Nat)
    (outcomes : Nat → Nat → Outcome α) (fuel : Nat) (tests : List (TS α)) (ret : Option Bool)
    (h : testSource N nTests fail rep minRep outcomes fuel = .ok (some (tests, ret))) :
    tests.length = nTests ∧
    (∀ i ts, tests[i]? = some ts →
      ∃ k, runHistory N (TS.init fail rep minRep) (column outcomes i k) = .ok ts ∧
        ts.finished = true ∧ ts.runs = k ∧
        (∀ j, j < k → ∃ tsj,
          runHistory N (TS.init fail rep minRep) (column outcomes i j) = .ok tsj ∧
          tsj.finished = false) ∧
        ∀ name, dictGet name ts.pvalues =
          if (returned name (column outcomes i k)).isEmpty then none
          else some (returned name (column outcomes i k))) ∧
    (nTests ≠ 0 → ∃ b, ret = some b ∧
      (b = true ↔ ∃ i k ts, tests[i]? = some ts ∧
        runHistory N (TS.init fail rep minRep) (column outcomes i k) = .ok ts ∧
        ∃ name c, combinedPValue N (returned name (column outcomes i k)) = .ok c ∧
          N.lt c fail = true)) := by
  obtain ⟨hlen, htr⟩ := testSource_tracks N nTests fail rep minRep outcomes fuel tests ret h
  obtain ⟨_, hrule⟩ := C13.testSource_rule N nTests fail rep minRep outcomes fuel tests ret h
  refine ⟨hlen, fun i ts hi => ?_, fun hn => ?_⟩
  · obtain ⟨k, hh, hfin, hpre⟩ := htr i ts hi
    have hruns := (runHistory_spec N _ ts _ hh).2.2.2.1
    refine ⟨k, hh, hfin, ?_, hpre, fun name => history_pvalues N fail rep minRep _ ts hh name⟩
    simpa [TS.init, column] using hruns
  · obtain ⟨b, hb, hiff, hall⟩ := hrule hn
    refine ⟨b, hb, ?_⟩
    rw [hiff]
    constructor
    · rintro ⟨ts, hts, name, hst⟩
      obtain ⟨i, hi⟩ := List.mem_iff_getElem?.1 hts
      obtain ⟨k, hh, _, _⟩ := htr i ts hi
      have hf : failed ts = true := (failed_iff N ts (hall ts hts).2.2.2).2 ⟨name, hst⟩
      exact ⟨i, k, ts, hi, hh, (history_failed N fail rep minRep _ ts hh).1 hf⟩
    · rintro ⟨i, k, ts, hi, hh, hex⟩
      have hts := List.mem_of_getElem? hi
      have hf : failed ts = true := (history_failed N fail rep minRep _ ts hh).2 hex
      exact ⟨ts, hts, (failed_iff N ts (hall ts hts).2.2.2).1 hf⟩

/-- TestBitString, in terms of histories: one structure per selected test, the structure at
position `i` is ONE run (fail level = repeat level = `level`) on what test `i` returned, and the
return value is True exactly when some sub-test's returned p-value(s) combine below the level. -/
theorem testBitString_history (N : Num α) (nTests : Nat) (level : α) (outcome : Nat → Outcome α)
    (tests : List (TS α)) (b : Bool)
    (h : testBitString N nTests level outcome = .ok (tests, b)) :
    tests.length = nTests ∧
    (∀ i ts, tests[i]? = some ts →
      runHistory N (TS.init level level 1) [outcome i] = .ok ts ∧
      ∀ name, dictGet name ts.pvalues =
        if (outcomeVals name (outcome i)).isEmpty then none
        else some (outcomeVals name (outcome i))) ∧
    (b = true ↔ ∃ i name c, i < nTests ∧
      combinedPValue N (outcomeVals name (outcome i)) = .ok c ∧ N.lt c level = true) := by
  obtain ⟨hiff, hall⟩ := C13.testBitString_rule N nTests level outcome tests b h
  unfold testBitString at h
  split at h
  · cases h
  · rename_i tests' hrun
    cases h
    obtain ⟨hlen, htr⟩ := runAll_tracks N outcome 0 (TS.init level level 1) nTests tests hrun
    have hret : ∀ name i, returned name [outcome i] = outcomeVals name (outcome i) := by
      intro name i
      rw [returned_cons, returned_nil, List.append_nil]
    refine ⟨hlen, fun i ts hi => ?_, ?_⟩
    · have hh := htr i ts hi
      rw [Nat.zero_add] at hh
      refine ⟨hh, fun name => ?_⟩
      have := history_pvalues N level level 1 _ ts hh name
      rwa [hret] at this
    · rw [hiff]
      constructor
      · rintro ⟨ts, hts, name, hst⟩
        obtain ⟨i, hi⟩ := List.mem_iff_getElem?.1 hts
        have hh := htr i ts hi
        rw [Nat.zero_add] at hh
        have hf : failed ts = true := (failed_iff N ts (hall ts hts).2.2.2).2 ⟨name, hst⟩
        obtain ⟨nm, c, hc, hlt⟩ := (history_failed N level level 1 _ ts hh).1 hf
        rw [hret] at hc
        have hil : i < tests.length := (List.getElem?_eq_some_iff.1 hi).1
        exact ⟨i, nm, c, by rw [← hlen]; exact hil, hc, hlt⟩
      · rintro ⟨i, name, c, hi, hc, hlt⟩
        have hil : i < tests.length := by rw [hlen]; exact hi
        have hget : tests[i]? = some tests[i] := List.getElem?_eq_getElem hil
        have hh := htr i _ hget
        rw [Nat.zero_add] at hh
        have hts := List.mem_of_getElem? hget
        have hf : failed tests[i] = true :=
          (history_failed N level level 1 _ _ hh).2 ⟨name, c, by rw [hret]; exact hc, hlt⟩
        exact ⟨_, hts, (failed_iff N _ (hall _ hts).2.2.2).1 hf⟩

/-! ## Non-vacuity and discrimination (number type `C13.milli`: per-mille integers) -/

/-- two runs returning 2‰ under "a" (fail level 1‰, repeat level 10‰): the recorded list is the
history `[2, 2]`, its combination 0 is below the fail level, the sub-test is FAILED. After the
first run alone it is UNDECIDED (2 is not below 1, and 10 is not below 2). -/
example :
    returned "a" [Outcome.named [("a", 2), ("b", 7)], Outcome.named [("a", 2)]] = [2, 2] ∧
    ((runHistory C13.milli (TS.init 1 10 1)
        [.named [("a", 2), ("b", 7)], .named [("a", 2)]]).map
      (fun ts => (ts.pvalues, ts.combined, ts.state))) =
      .ok ([("a", [2, 2]), ("b", [7])], [("a", 0), ("b", 7)],
           [("a", .failed), ("b", .undecided)]) ∧
    ((runHistory C13.milli (TS.init 1 10 1) [.named [("a", 2), ("b", 7)]]).map
      (fun ts => ts.state)) = .ok [("a", .undecided), ("b", .undecided)] := by
  decide +kernel

/-- a name occurring twice in ONE result: the first decision for "a" (p-values [5]) is UNDECIDED,
the second ([5, 900]) is PASSED; the recorded state is PASSED, yet the structure is NOT finished
— `finished_rule` (no hypothesis on names) says so, the distinct-names reading would not. -/
example :
    ((runHistory C13.milli (TS.init 1 10 1) [.named [("a", 5), ("a", 900)]]).map
      (fun ts => (ts.pvalues, ts.state, ts.finished))) =
      .ok ([("a", [5, 900])], [("a", .passed)], false) ∧
    isUndecided C13.milli 1 10 [5] = true ∧ isUndecided C13.milli 1 10 [5, 900] = false := by
  decide +kernel

/-- TestSource with two tests: test 1 is run in rounds 0 and 1 (UNDECIDED after round 0), test 0
only in round 0; the recorded lists are the columns of the outcome script. -/
example :
    ((testSource C13.milli 2 1 10 1
      (fun r i => if i = 0 then .scalar 500 else if r = 0 then .scalar 10 else .scalar 900) 5).map
      (fun o => o.map (fun p => p.1.map (fun ts => ts.pvalues)))) =
    .ok (some [[("result", [500])], [("result", [10, 900])]]) := by decide +kernel

/-! ### a mutant that forgets earlier p-values -/

/-- MUTANT of `runItem`: stores (and decides on) only the newest p-value. -/
def runItemForget (N : Num α) (acc : TS α × Nat) (item : String × α) :
    Except PyErr (TS α × Nat) :=
  match stateOf N acc.1.fail acc.1.rep [item.2] with
  | .error e => .error e
  | .ok (pval, st) =>
    .ok ({ acc.1 with
            pvalues := dictSet item.1 [item.2] acc.1.pvalues
            combined := dictSet item.1 pval acc.1.combined
            state := dictSet item.1 st acc.1.state },
         if st = .undecided then acc.2 + 1 else acc.2)

def runItemsForget (N : Num α) : TS α × Nat → List (String × α) → Except PyErr (TS α × Nat)
  | acc, [] => .ok acc
  | acc, it :: its =>
    match runItemForget N acc it with
    | .error e => .error e
    | .ok acc' => runItemsForget N acc' its

/-- `Run` with the mutant loop body. -/
def runForget (N : Num α) (ts : TS α) (o : Outcome α) : Except PyErr (TS α × Bool) :=
  match asNamed o with
  | none => .ok ({ ts with runs := ts.runs + 1, finished := true }, true)
  | some items =>
    match runItemsForget N ({ ts with runs := ts.runs + 1 }, 0) items with
    | .error e => .error e
    | .ok (ts', undecided) =>
      .ok ({ ts' with finished := (undecided == 0) && decide (ts'.minRep ≤ ts'.runs) },
           (undecided == 0) && decide (ts'.minRep ≤ ts'.runs))

def runHistoryForget (N : Num α) : TS α → List (Outcome α) → Except PyErr (TS α)
  | ts, [] => .ok ts
  | ts, o :: os =>
    match runForget N ts o with
    | .error e => .error e
    | .ok (ts', _) => runHistoryForget N ts' os

/-- the two-run history on which the mutant and the model differ. -/
def twoRuns : List (Outcome Nat) := [.named [("a", 2)], .named [("a", 2)]]

/-- DISCRIMINATION ON ONE HISTORY (an instance, not a theorem about the mutant: nothing here says that
the mutant satisfies `C13.state_rule` for every history).  On this history, `twoRuns`, the mutant ends
with the list `[2]` and state UNDECIDED, and
(1) on this history the mutant satisfies the conclusion of `C13.state_rule` (the existential-list
    statement) for the name "a": with `pv = [2]`, `c = 2` the equivalences for its state hold;
(2) on this history the mutant violates the conclusions of `pvalues_are_history` and of
    `failed_iff_history` / `state_rule` above: the history returned `[2, 2]`, whose combination 0 is
    below the fail level 1, so the rule demands FAILED.
The model itself (`runHistory`) ends FAILED with the list `[2, 2]`. -/
example :
    (∃ ts, runHistoryForget C13.milli (TS.init 1 10 1) twoRuns = .ok ts ∧
      -- (1) conclusion of C13.state_rule holds for the mutant
      (∃ pv c, dictGet "a" ts.pvalues = some pv ∧ dictGet "a" ts.combined = some c ∧
        combinedPValue C13.milli pv = .ok c ∧ dictGet "a" ts.state = some .undecided ∧
        (TState.undecided = .failed ↔ C13.milli.lt c 1 = true) ∧
        (TState.undecided = .undecided ↔ C13.milli.lt c 1 = false ∧
          ∃ rp, combinedPValue C13.milli (List.replicate pv.length 10) = .ok rp ∧
            C13.milli.lt rp c = false)) ∧
      -- (2) conclusions of this file fail for the mutant
      dictGet "a" ts.pvalues ≠ some (returned "a" twoRuns) ∧
      ¬ (dictGet "a" ts.state = some TState.failed ↔
          ∃ c, combinedPValue C13.milli (returned "a" twoRuns) = .ok c ∧
            C13.milli.lt c 1 = true)) ∧
    (runHistory C13.milli (TS.init 1 10 1) twoRuns).map (fun ts => (ts.pvalues, ts.state)) =
      .ok ([("a", [2, 2])], [("a", .failed)]) := by
  refine ⟨⟨_, rfl, ⟨[2], 2, by decide +kernel, by decide +kernel, by decide +kernel,
    by decide +kernel, by decide +kernel, ?_⟩, by decide +kernel, ?_⟩, by decide +kernel⟩
  · refine ⟨fun _ => ⟨by decide +kernel, 10, by decide +kernel, by decide +kernel⟩, fun _ => rfl⟩
  · intro hiff
    have : dictGet "a" (TS.mk (α := Nat) 1 10 1 [("a", [2])] [("a", 2)] [("a", .undecided)]
        false 2).state = some TState.failed := by
      have h2 := hiff.2 ⟨0, by decide +kernel, by decide +kernel⟩
      exact h2
    revert this
    decide +kernel

end Paranoid.C13History
