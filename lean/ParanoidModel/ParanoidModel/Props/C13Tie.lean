/-
Props/C13Tie.lean — the function the DRIVER runs is the function the C13 theorems are about
(second review, L21).

The theorems of Props/C13.lean / Props/C13History.lean speak of `Suite.runHistory` (Proofs/Suite.lean: a fold
of `Suite.run` that drops the returned flags).  The line-protocol op `su.run`, which harness/corr/c13.py
compares with the real `TestStructure.Run` history, evaluates `Driver.runScript` (Driver/Suite.lean: the same
fold, which also collects the returned `finished` flags).  Both are folds of the SAME model function `run`,
but until now no lemma said so: a difference between the two recursions (e.g. one of them stopping early)
would have been invisible both to the theorems and to the correspondence.

* `runScript_structure`   first component of `runScript` = `runHistory`, for every history, accumulator and
                          number semantics, including the error case;
* `runScript_flags`       the collected flags are the `finished` fields after each prefix of the history
                          (so the flag string printed by `su.run` is determined by `runHistory` too);
* `su_run_is_history`     the two together for the call made by the op (`TS.init …`, empty accumulator), in
                          the form in which the hypotheses `runHistory … = .ok ts` of C13History are stated.

`su.source` / `su.bits` call `Suite.testSource` / `Suite.testBitString` directly — the functions of
`C13History.testSource_history` / `testBitString_history` — and need no tie.
Imports Driver/Suite.lean (Mathlib-free) so that the statement is about the compiled definition itself.
-/
import ParanoidModel.Props.C13History
import ParanoidModel.Driver.Suite
namespace Paranoid.C13Tie
open Paranoid Paranoid.Suite Paranoid.Driver

/-- `Driver.runScript` (op `su.run`) and `Suite.runHistory` (the theorems) compute the same structure and
fail on the same histories with the same exception. -/
theorem runScript_structure (N : Num Val) (ts : TS Val) (os : List (Outcome Val)) (acc : List Bool) :
    (runScript N ts os acc).map (·.1) = runHistory N ts os := by
  induction os generalizing ts acc with
  | nil => rfl
  | cons o os ih =>
    simp only [runScript, runHistory]
    cases h : run N ts o with
    | error e => rfl
    | ok p => exact ih p.1 (p.2 :: acc)

/-- the flags `runScript` returns: the accumulator (reversed) followed by one flag per run, the i-th being
the `finished` field of the structure after the first i + 1 runs. -/
theorem runScript_flags (N : Num Val) (ts ts' : TS Val) (os : List (Outcome Val)) (acc fl : List Bool)
    (h : runScript N ts os acc = .ok (ts', fl)) :
    ∃ fl', fl = acc.reverse ++ fl' ∧ fl'.length = os.length ∧
      ∀ i, i < os.length → ∃ tsi, runHistory N ts (os.take (i + 1)) = .ok tsi ∧
        fl'[i]? = some tsi.finished := by
  induction os generalizing ts acc with
  | nil =>
    simp only [runScript, Except.ok.injEq, Prod.mk.injEq] at h
    exact ⟨[], by simp [h.2], rfl, fun i hi => absurd hi (Nat.not_lt_zero i)⟩
  | cons o os ih =>
    rw [runScript] at h
    cases hr : run N ts o with
    | error e => rw [hr] at h; cases h
    | ok p =>
      obtain ⟨ts1, fin⟩ := p
      rw [hr] at h
      obtain ⟨fl', h1, h2, h3⟩ := ih ts1 (fin :: acc) h
      have hfin : fin = ts1.finished := (run_spec N ts ts1 o fin hr).2.2.2.2.1
      refine ⟨fin :: fl', by rw [h1]; simp, by simp [h2], fun i hi => ?_⟩
      cases i with
      | zero => exact ⟨ts1, by simp [runHistory, hr], by simp [hfin]⟩
      | succ i =>
        obtain ⟨tsi, ha, hb⟩ := h3 i (by simpa using hi)
        exact ⟨tsi, by simp only [List.take_succ_cons, runHistory, hr]; exact ha, by simpa using hb⟩

/-- ★ the call made by `su.run`: it answers `ok` with structure `ts` exactly when
`runHistory N (TS.init fail rep minRep) os = .ok ts` — the hypothesis of `C13History.state_rule`,
`pvalues_are_history`, `failed_rule`, `finished_rule` — and then prints one flag per run, the last one being
`ts.finished`. -/
theorem su_run_is_history (N : Num Val) (fail rep : Val) (minRep : Nat) (os : List (Outcome Val))
    (ts : TS Val) :
    (∃ fl, runScript N (TS.init fail rep minRep) os [] = .ok (ts, fl)) ↔
      runHistory N (TS.init fail rep minRep) os = .ok ts := by
  rw [← runScript_structure N _ os []]
  cases runScript N (TS.init fail rep minRep) os [] with
  | error e => simp [Except.map]
  | ok p =>
    obtain ⟨t, fl⟩ := p
    simp only [Except.map, Except.ok.injEq, Prod.mk.injEq]
    constructor
    · rintro ⟨fl', h, _⟩; exact h
    · intro h; exact ⟨fl, h, rfl⟩

/-- … so the C13History rule applies verbatim to every `ok` answer of `su.run` (instance: the recorded list
under every name is what the runs returned). -/
theorem su_run_pvalues (N : Num Val) (fail rep : Val) (minRep : Nat) (os : List (Outcome Val))
    (ts : TS Val) (fl : List Bool)
    (h : runScript N (TS.init fail rep minRep) os [] = .ok (ts, fl)) (name : String) :
    dictGet name ts.pvalues =
      if (returned name os).isEmpty then none else some (returned name os) :=
  C13History.pvalues_are_history N fail rep minRep os ts
    ((su_run_is_history N fail rep minRep os ts).mp ⟨fl, h⟩) name

end Paranoid.C13Tie
