/-
Props/C14.lean — "Linear complexity is the true shortest-LFSR length in every implementation".
Property theorems only; helper lemmas live in Proofs/Lfsr.lean and Proofs/BM.lean.

What is proved here, for ALL inputs (no size bound):
* `native_is_shortest_lfsr`: the model of `LinearComplexityNative` (the `sb`/`sc` big-integer
  loop, also standing for the value the C++ code returns) computes the length of the shortest
  LFSR generating the bit sequence — via `native_simulates_textbook` (register invariant over
  carry-less products) and `textbook_correct` (Massey's theorem);
* `textbook_count`, `model_count`, `count_total`, `logprob_count`: `LfsrCount` is the true number
  of sequences of each linear complexity and `LfsrLogProbability` its base-2 logarithm minus `n`
  (for `n ≥ 1`; `LfsrCount(0, 0)` is 0 in the pinned code although the empty sequence exists —
  `count_length_zero_pinned`, `count_repaired`).
What is a BOUNDED kernel enumeration: `bounded_agree`, `bounded_native_textbook`
(redundant with the theorems above; kept as an independent cross-check of the definitions).
The C++ code (both variants, word level) is the subject of Props/C14Cpp.lean, which proves that it
computes `bmLength`. The Python functions and the C++ builds are tied to their models by the
correspondence check (harness/corr/c14.py).
-/
import ParanoidModel.Proofs.BM
import ParanoidModel.Proofs.BMBounded
namespace Paranoid.C14
open Paranoid Paranoid.Lfsr

/-! ### Closed forms -/

/-- ★ `count_total`: the closed-form counts of all complexities `m = 0..n` add up to the
number `2^n` of sequences of length `n` (`n ≥ 1`). -/
theorem count_total (n : Nat) (hn : 1 ≤ n) :
    (∑ m ∈ Finset.range (n + 1), lfsrCount n m) = 2 ^ n := by
  rw [← cnt_total n]
  exact Finset.sum_congr rfl (fun m _ => lfsrCount_eq_cnt n m hn)

/-- `LfsrCount` is 0 outside `1 ≤ n`, `0 ≤ m ≤ n` (in particular for `m > n`, `m < 0`). -/
theorem count_outside (n m : Int) (h : n ≤ 0 ∨ m < 0 ∨ n < m) : lfsrCount n m = 0 := by
  unfold lfsrCount
  rw [if_pos (by omega)]

/-- `LfsrLogProbability` raises (`ValueError`) exactly outside `1 ≤ n`, `0 ≤ m ≤ n`. -/
theorem logprob_raises_iff (n m : Int) :
    (∃ e, lfsrLogProbability n m = .error e) ↔ (n ≤ 0 ∨ m < 0 ∨ n < m) := by
  unfold lfsrLogProbability
  constructor
  · intro ⟨e, h⟩
    by_contra hc
    rw [if_neg (by omega), if_neg (by omega)] at h
    split at h <;> [skip; split at h] <;> cases h
  · intro h
    by_cases h1 : n ≤ 0
    · exact ⟨_, if_pos h1⟩
    · rw [if_neg h1, if_pos (by omega)]; exact ⟨_, rfl⟩

/-- ★ `logprob_count`: whenever `LfsrLogProbability(n, m)` returns `e`, the count is exactly
`2^(n + e)`, i.e. the probability `LfsrCount(n, m) / 2^n` is `2^e`. Conventions read off the
code: `m = 0 ↦ e = -n`; `1 ≤ m ≤ n // 2 ↦ e = 2m - n - 1`; `n // 2 < m ≤ n ↦ e = n - 2m`. -/
theorem logprob_count (n m e : Int) (h : lfsrLogProbability n m = .ok e) :
    0 ≤ n + e ∧ lfsrCount n m = 2 ^ (n + e).toNat := by
  unfold lfsrLogProbability at h
  unfold lfsrCount
  split at h
  · cases h
  split at h
  · cases h
  rename_i h1 h2
  rw [if_neg (by omega)]
  split at h
  · rename_i h3
    injection h with h; subst h
    rw [if_pos h3]
    refine ⟨by omega, ?_⟩
    have : (n + -n).toNat = 0 := by omega
    rw [this]; rfl
  split at h
  · rename_i h3 h4
    injection h with h; subst h
    rw [if_neg h3, if_pos h4]
    refine ⟨by omega, ?_⟩
    have : (n + (2 * m - n - 1)).toNat = 2 * (m - 1).toNat + 1 := by omega
    rw [this, Nat.pow_succ, Nat.pow_mul]
    have e4 : (2 : Nat) ^ 2 = 4 := rfl
    rw [e4]
    omega
  · rename_i h3 h4
    injection h with h; subst h
    rw [if_neg h3, if_neg h4]
    refine ⟨by omega, ?_⟩
    have : (n + (n - 2 * m)).toNat = 2 * (n - m).toNat := by omega
    rw [this, Nat.pow_mul]

/-! ### Step structure -/

/-- ★ `native_step_structure`: in one iteration of the `LinearComplexityNative` loop the length
update is `deg_c ← n + 1 - deg_c` exactly when the discrepancy bit (bit `m` of `sc`) is 1 and
`2·deg_c ≤ n`; in every other case `deg_c` is unchanged. -/
theorem native_step_structure (n : Nat) (st : BMState) :
    (bmStep n st).degC =
      if st.sc.testBit st.m = true ∧ 2 * st.degC ≤ n then n + 1 - st.degC else st.degC :=
  bmStep_degC n st

/-- The same structure for the textbook recursion, in the form used for counting: of the two
one-bit extensions of `s`, the one continuing the current LFSR keeps `L`, the other moves to
`max L (|s| + 1 - L)`. -/
theorem textbook_step_structure (s : List Bool) (b : Bool) :
    textbookL (s ++ [b]) =
      if (b ^^ predicted s) = true then max (textbookL s) (s.length + 1 - textbookL s)
      else textbookL s := by
  rw [textbookL_snoc, upd_eq_max]

/-! ### Counting -/

/-- `allSeqs n` lists every bit sequence of length `n` exactly once. -/
theorem allSeqs_spec (n : Nat) :
    (∀ s : List Bool, s ∈ allSeqs n ↔ s.length = n) ∧ (allSeqs n).Nodup ∧
      (allSeqs n).length = 2 ^ n :=
  ⟨mem_allSeqs n, nodup_allSeqs n, length_allSeqs n⟩

/-- ★ `textbook_count`: for all `n ≥ 1` and all `m`, the number of bit sequences of length `n`
to which the textbook Berlekamp–Massey recursion assigns length `m` is `LfsrCount(n, m)`. -/
theorem textbook_count (n m : Nat) (hn : 1 ≤ n) :
    ((allSeqs n).filter fun s => decide (textbookL s = m)).length = lfsrCount n m := by
  rw [lfsrCount_eq_cnt n m hn, ← countL_eq_cnt, countL, List.countP_eq_length_filter]

/-- `textbook_count` without reference to an enumeration: ANY finite set consisting of exactly
the sequences of length `n` with textbook length `m` has `LfsrCount(n, m)` elements. -/
theorem textbook_count_finset (n m : Nat) (hn : 1 ≤ n) (S : Finset (List Bool))
    (hS : ∀ s, s ∈ S ↔ s.length = n ∧ textbookL s = m) : S.card = lfsrCount n m := by
  rw [← textbook_count n m hn]
  have : S = ((allSeqs n).filter fun s => decide (textbookL s = m)).toFinset := by
    ext s
    simp [hS, mem_allSeqs]
  rw [this, List.toFinset_card_of_nodup ((nodup_allSeqs n).filter _)]

/-- the count with the guard of `LfsrCount` repaired (`n < 0` instead of `n <= 0`) is exact for
EVERY `n`, including the empty sequence. -/
theorem count_repaired (n m : Nat) :
    ((allSeqs n).filter fun s => decide (textbookL s = m)).length = lfsrCountRepaired n m := by
  rw [lfsrCountRepaired_eq_cnt, ← countL_eq_cnt, countL, List.countP_eq_length_filter]

/-- Pinned behaviour at `n = 0` (known finding "LfsrCount, n = 0"): the code answers 0 although
one sequence of length 0 exists and has linear complexity 0. -/
theorem count_length_zero_pinned :
    lfsrCount 0 0 = 0 ∧ ((allSeqs 0).filter fun s => decide (textbookL s = 0)).length = 1 := by
  decide

/-! ### The native loop is Berlekamp–Massey, and Berlekamp–Massey is correct -/

/-- ☆ `native_simulates_textbook` (proved): for every `s` and `len` the `sb`/`sc` loop returns
the textbook Berlekamp–Massey length of the first `len` bits of `s`. The invariant is
`Paranoid.Sim`: `sc = (C·S) >> (n - m)`, `sb = (B·S) >> (n + 1 - x)` over carry-less products. -/
theorem native_simulates_textbook (s len : Nat) :
    bmLength s len = textbookL (bitsOf s len) :=
  bmLength_eq_textbookL s len

/-- ☆ `textbook_correct` (proved; Massey's theorem): the textbook length is the length of the
shortest LFSR generating `s` — an LFSR of that length exists and none shorter does. -/
theorem textbook_correct (s : List Bool) : IsShortestLfsr s (textbookL s) :=
  textbookL_isShortest s

/-- the brute-force definition computes the same number. -/
theorem shortestLfsr_correct (s : List Bool) : IsShortestLfsr s (shortestLfsr s) :=
  shortestLfsr_isShortest s

/-- **First sentence of C14 for the model**: for every bit sequence `s` (as an integer) and every
length, `LinearComplexityNative` does not raise and returns the length of the shortest LFSR
generating `s_0 … s_{len-1}`. -/
theorem native_is_shortest_lfsr (s len : Nat) :
    linearComplexityNative s len = .ok (bmLength s len) ∧
      IsShortestLfsr (bitsOf s len) (bmLength s len) ∧
      bmLength s len = shortestLfsr (bitsOf s len) := by
  refine ⟨?_, ?_, ?_⟩
  · unfold linearComplexityNative
    rw [if_neg (by omega)]
    rfl
  · rw [bmLength_eq_textbookL]; exact textbookL_isShortest _
  · rw [bmLength_eq_textbookL]; exact textbookL_eq_shortestLfsr _

/-- The wrapper `LinearComplexity` (Python in front of the C++ value modelled by the same loop)
returns the same number whenever `s` fits the `(len + 7) // 8` bytes it is serialised to;
therefore the two Python entry points agree on every well-formed input. -/
theorem wrapper_agrees (s len : Nat) (hlen : len < 2 ^ 31) (hs : s < 2 ^ len) :
    linearComplexity s len = .ok (bmLength s len) ∧
      linearComplexityNative s len = .ok (bmLength s len) := by
  refine ⟨?_, (native_is_shortest_lfsr s len).1⟩
  unfold linearComplexity lcSize
  have h8 : Int.fdiv ((len : Int) + 7) 8 = ((len + 7) / 8 : Nat) := by
    rw [Int.fdiv_eq_ediv_of_nonneg _ (by omega)]; omega
  rw [h8]
  have hfit : ¬ 2 ^ (8 * ((((len + 7) / 8 : Nat) : Int)).toNat) ≤ s := by
    have : (((len + 7) / 8 : Nat) : Int).toNat = (len + 7) / 8 := by omega
    rw [this]
    have : 2 ^ len ≤ 2 ^ (8 * ((len + 7) / 8)) := Nat.pow_le_pow_right (by omega) (by omega)
    omega
  rw [if_neg (by omega), if_neg hfit, if_neg (by omega), if_neg (by omega)]
  rfl

/-- bits of `s` at positions `≥ len` have no influence on `LinearComplexityNative`. -/
theorem native_ignores_high_bits (s len : Nat) : bmLength s len = bmLength (s % 2 ^ len) len := by
  rw [bmLength_eq_textbookL, bmLength_eq_textbookL, bitsOf_mod]

/-- `model_count`: the count theorem for the model itself — among the `2^n` integers `s < 2^n`
exactly `LfsrCount(n, m)` have `LinearComplexityNative(s, n) = m` (`n ≥ 1`). -/
theorem model_count (n m : Nat) (hn : 1 ≤ n) :
    ((List.range (2 ^ n)).filter fun s => decide (bmLength s n = m)).length = lfsrCount n m := by
  rw [lfsrCount_eq_cnt n m hn, ← bmLength_count, List.countP_eq_length_filter]

/-! ### Bounded kernel enumerations (cross-checks, NOT the source of the claims above) -/

/-- ★ `bounded_agree` — a BOUNDED check: on all 511 sequences of length `≤ 8` the native loop,
the textbook recursion and the brute-force shortest LFSR (all `2^L` tap vectors tried) agree;
kernel evaluation (`decide +kernel` in Proofs/BMBounded.lean) of the three executable definitions. -/
theorem bounded_agree_le8 : agreeUpTo 8 = true := agreeUpTo_8

/-- ★ `bounded_agree`, native vs textbook only — a BOUNDED check: all 2047 sequences of length
`≤ 10`. -/
theorem bounded_native_textbook_le10 : agreeNativeTextbookUpTo 10 = true :=
  agreeNativeTextbookUpTo_10

/-- readable form of `bounded_agree_le8`. -/
theorem bounded_agree (len s : Nat) (hlen : len ≤ 8) (hs : s < 2 ^ len) :
    bmLength s len = textbookL (bitsOf s len) ∧
      textbookL (bitsOf s len) = shortestLfsr (bitsOf s len) := by
  have h := bounded_agree_le8
  unfold agreeUpTo at h
  rw [List.all_eq_true] at h
  have h1 := h len (List.mem_range.2 (by omega))
  rw [List.all_eq_true] at h1
  have h2 := h1 s (List.mem_range.2 hs)
  simpa using h2

/-! ### Non-vacuity: concrete non-trivial instances -/

example : linearComplexityNative 0b1011001110001111 16 = .ok 8 := by decide +kernel
example : textbookL (bitsOf 0b1011001110001111 16) = 8 := by decide +kernel
example : generates [true, false, true] (bitsOf 0b0111001 7) := by decide +kernel
example : shortestLfsr (bitsOf 0b0111001 7) = 3 := by decide +kernel
example : lfsrLogProbability 9 4 = .ok (-2) ∧ lfsrCount 9 4 = 2 ^ 7 := by decide +kernel
example : (bmStep 4 ⟨1, 0b10000, 2, 4⟩).degC = 3 := by decide +kernel
example : linearComplexity 0x1ff 8 = .error .overflow := by decide +kernel
example : linearComplexity 0b1011001110001111 16 = .ok 8 := by decide +kernel
example : linearComplexity 0 (-3) = .ok (-1) ∧ linearComplexityNative 0 (-3) = .error .valueError := by
  decide +kernel

end Paranoid.C14
