/-
Props/C14Cpp.lean — property C14 for the C++ code: "the native (C++, with or without carry-less
multiplication) … routines return the length of the shortest LFSR".

Subject: the WORD-LEVEL model Model/BMCpp.lean of `cc_util/berlekamp_massey.cc` (both variants of
`LfsrLengthImpl`, the byte packing of `LfsrLength`, `LfsrLengthStr`), with
`_mm_clmulepi64_si128` / `vmull_p64` specified as the 64×64-bit carry-less product
(`BMCpp.clmul`, shift-and-xor; trusted-base item) and C `int`s as unbounded naturals.

PROVED FOR ALL INPUTS OF THE MODEL (every byte list, every `n`; no size bound IN THE MODEL, whose
`int`s are unbounded naturals).  The model is the C++ code only within the size limits of its
`int` variables — `BMCpp.CppSizeOk`: `n ≤ 2^30` (`2 * lfsr_len` must not overflow) and
`(|seq| + 7) / 8 < 2^31` words (`int size = seq.size()`), i.e. `|seq| ≤ 2^34 - 8` bytes; beyond
them the real code has signed overflow / truncation and NOTHING is claimed
(`C14Wrapper.int_quantities_fit`: inside them every `int` quantity is `< 2^31`;
`C14Wrapper.wrapper_enforces_size_limits`: the Python wrapper enforces all of them except
`length ≤ 2^30`):
* `packing`, `packing_bits`: the words built by `LfsrLength` carry the bit string of the bytes
  (bit `k` of the sequence = bit `k mod 8` of byte `k / 8`);
* `portable_step_simulates`, `cpp_portable_simulates_native`: the portable variant simulates the
  big-integer routine `LinearComplexityNative` (model `bmLength`) — invariant: the `Nat` value of
  each word vector IS the big integer (`sb`), resp. the big integer shifted by the pending count
  (`sc >> m`);
* `clmul_spec`: the model of the intrinsic is the GF(2)[X] product `clMul`;
* `clmul_block_is_64_steps`, `cpp_clmul_simulates_native`: one block of the CLMUL loop (bit loop
  on the low words with the polynomials `a, b, c, d` and their carries, four `clmul`s per word,
  swap, `size--`) equals 64 steps of the big-integer routine, modulo the dead top word; hence the
  CLMUL variant computes the same function;
* `cpp_no_undefined_behaviour`: through `LfsrLengthStr` no vector is ever indexed out of bounds
  (in particular the CLMUL variant with the `n == 0` early return, DESIGN D8);
* `cpp_is_shortest_lfsr`: hence both variants return the length of the shortest LFSR generating
  the first `n` bits (via `C14.native_is_shortest_lfsr`: Massey's theorem), and `-1` exactly
  when `n < 0` or `n > 8·|seq|`; `cpp_matches_wrapper_model`: they equal the value
  `Paranoid.lfsrLengthStr` that Model/BM.lean assumed for the C++ code (op `bm.cpp`).
BOUNDED kernel evaluations (redundant cross-checks of the executable definitions):
`bounded_cpp_le10`, `bounded_cpp_boundary`.
The model is tied to the real C++ builds by the correspondence run (harness/corr/c14.py, ops
`bm.cpp_portable`, `bm.cpp_clmul`, `bm.clmul`).
-/
import ParanoidModel.Proofs.BMCppClmul
import ParanoidModel.Proofs.BMCppBounded
import ParanoidModel.Props.C14
namespace Paranoid.C14Cpp
open Paranoid Paranoid.Lfsr Paranoid.BMCpp

/-! ### packing -/

/-- **packing lemma**: the `(|seq| + 7) / 8` words `LfsrLength` builds have, as a little-endian
number, the value `Σ 256^i · seq[i]` of the byte string. -/
theorem packing (seq : List UInt8) :
    val (wordsOfBytes seq) = natOfBytes seq ∧ (wordsOfBytes seq).length = (seq.length + 7) / 8 :=
  ⟨val_wordsOfBytes seq, length_wordsOfBytes seq⟩

/-- byte order and bit order: bit `k` of the packed sequence is bit `k mod 8` of byte `k / 8`
(and `0` beyond the last byte: the padding of the last word). -/
theorem packing_bits (seq : List UInt8) (k : Nat) :
    (val (wordsOfBytes seq)).testBit k
      = ((seq[k / 8]?).map (fun b => b.toNat.testBit (k % 8))).getD false := by
  rw [val_wordsOfBytes, natOfBytes_testBit]

/-! ### portable variant -/

/-- **simulation invariant, one bit step**: if the word vectors `sb`, `sc` of the portable loop
have the values of the registers `sb`, `sc >> m` of `LinearComplexityNative` (and `lfsr_len =
deg_c`), then so they have after one iteration of either loop; `sc[0]` is in bounds. -/
theorem portable_step_simulates (p : PState) (bm : BMState) (i : Nat)
    (hsb : val p.sb = bm.sb) (hsc : val p.sc = bm.sc >>> bm.m) (hlen : p.len = bm.degC)
    (hsize : p.sb.length = p.sc.length) (hne : p.sc ≠ []) :
    ∃ p', pStep i p = some p' ∧ val p'.sb = (bmStep i bm).sb ∧
      val p'.sc = (bmStep i bm).sc >>> (bmStep i bm).m ∧ p'.len = (bmStep i bm).degC ∧
      p'.sb.length = p'.sc.length ∧ p'.sc.length = p.sc.length := by
  obtain ⟨p', h1, hr, hl⟩ := pStep_sim (e := ⟨bm.sb, bm.sc >>> bm.m, bm.degC⟩) ⟨hsb, hsc, hlen, hsize⟩ hne i
  have hb := eRel_step (e := ⟨bm.sb, bm.sc >>> bm.m, bm.degC⟩) (bm := bm) ⟨rfl, rfl, rfl⟩ i
  exact ⟨p', h1, hr.sb.trans hb.p, hr.sc.trans hb.q, hr.len.trans hb.l, hr.size, hl⟩

/-- portable `LfsrLengthImpl` on any word vector (`n = 0` if it is empty). -/
theorem portable_impl (seq : Words) (n : Nat) (h : n = 0 ∨ seq ≠ []) :
    lfsrLengthImplPortable seq n = some (bmLength (val seq) n) :=
  lfsrLengthImplPortable_eq seq n h

/-! ### CLMUL variant -/

/-- **`clmul_spec`**: `clmul(x, y, &hi, &lo)` of the model returns the two words of the carry-less
product (product in GF(2)[X] of the polynomials with coefficient vectors `x`, `y`):
`(hi, lo) = ((x ⊛ y) / 2^64, (x ⊛ y) % 2^64)`. -/
theorem clmul_spec (x y : UInt64) :
    (clmul x y).1.toNat = clMul x.toNat y.toNat / 2 ^ 64 ∧
      (clmul x y).2.toNat = clMul x.toNat y.toNat % 2 ^ 64 := by
  have h := BMCpp.clmul_spec x y
  have hlo := (clmul x y).2.toNat_lt
  rw [← h]
  constructor
  · rw [Nat.add_mul_div_left _ _ (Nat.two_pow_pos 64), Nat.div_eq_of_lt hlo, Nat.zero_add]
  · rw [Nat.add_mul_mod_self_left, Nat.mod_eq_of_lt hlo]

/-- `clMul` is the GF(2)-polynomial product: coefficient `n` of `a ⊛ p` is
`⊕_{i ≤ n} a_i · p_{n-i}` — stated through its defining recursion: bilinear over xor, `1 ⊛ p = p`,
`(2a) ⊛ p = 2 (a ⊛ p)`. -/
theorem clMul_is_polynomial_product (a a' p q : Nat) :
    clMul (a ^^^ a') p = clMul a p ^^^ clMul a' p ∧ clMul a (p ^^^ q) = clMul a p ^^^ clMul a q ∧
      clMul 1 p = p ∧ clMul 0 p = 0 ∧ clMul (2 * a) p = 2 * clMul a p := by
  refine ⟨clMul_xor_left _ _ _, clMul_xor_right _ _ _, clMul_one_left _, clMul_zero_left _, ?_⟩
  rw [clMul_double_left, Nat.shiftLeft_eq, Nat.pow_one, Nat.mul_comm]

/-- **the 64-step block invariant**: let the live prefixes (`size` words) of `sb`, `sc` agree
modulo `2^(64·size)` with registers `(P, Q)` of the eager big-integer machine (`eStep` = one step
of `LinearComplexityNative` with the pending shift applied, `eRel_step`), `lfsr_len = L`. Then one
iteration of the outer CLMUL loop is in bounds and the new live prefixes (`size - 1` words) agree
modulo `2^(64·(size-1))` with the registers after 64 STEPS, with the same `lfsr_len`. -/
theorem clmul_block_is_64_steps {W blk : Nat} {st : ClState} {E : EState}
    (h : ClRel W blk st E) (hs : 1 ≤ st.size) :
    ∃ st', clBlock (64 * blk) st = some st' ∧ ClRel W (blk + 1) st' (eLoop 64 (64 * blk) E) :=
  clBlock_sim h hs

/-- the eager machine is `LinearComplexityNative`'s loop. -/
theorem eager_machine_is_native (s n : Nat) : (eLoop n 0 ⟨s, s, 0⟩).L = bmLength s n := eLoop_L s n

/-- CLMUL `LfsrLengthImpl` on any word vector with `n ≤ 64·seq.size()`. -/
theorem clmul_impl (seq : Words) (n : Nat) (h : n ≤ 64 * seq.length) :
    lfsrLengthImplClmul seq n = some (bmLength (val seq) n) :=
  lfsrLengthImplClmul_eq seq n h

/-! ### entry points -/

theorem impl_eq (v : Variant) (seq : List UInt8) (n : Nat) (h : n ≤ 8 * seq.length) :
    lfsrLengthImpl v (wordsOfBytes seq) n = some (bmLength (natOfBytes seq) n) := by
  have hl := length_wordsOfBytes seq
  cases v with
  | portable =>
    show lfsrLengthImplPortable _ _ = _
    rw [lfsrLengthImplPortable_eq _ _ ?_, val_wordsOfBytes]
    by_cases h0 : n = 0
    · exact Or.inl h0
    · refine Or.inr (fun he => ?_)
      rw [he] at hl
      simp at hl
      omega
  | clmul =>
    show lfsrLengthImplClmul _ _ = _
    rw [lfsrLengthImplClmul_eq _ _ (by rw [hl]; omega), val_wordsOfBytes]

/-- **C++ simulation theorem, both variants, total on the model**: for every byte list and every
`n` the WORD-LEVEL MODEL of `LfsrLengthStr(seq, n)` has defined behaviour and returns `-1` if
`n < 0` or `n > 8·|seq|`, else `LinearComplexityNative(int.from_bytes(seq, "little"), n)`.
SIZE LIMITS: this is a statement about the real C++ code only for inputs within
`BMCpp.CppSizeOk seq.length n` — `n` fits an `int` and `n ≤ 2^30` (so that `2 * lfsr_len` does
not overflow), and `(|seq| + 7) / 8 < 2^31` words (`int size = seq.size()`, `int j <
sc.size() - 1`), i.e. `|seq| ≤ 2^34 - 8` bytes.  The model's `int`s are unbounded naturals, so the
Lean statement itself needs no hypothesis, but "EVERY byte string" of the real code would be
overstated: a longer string or `2^30 < n < 2^31` is outside the claim (signed overflow is
undefined behaviour in C++).  The hypothesis is explicit in the end-to-end theorem
`C14Wrapper.linearComplexity_is_shortest_lfsr`. -/
theorem cpp_simulates_native (v : Variant) (seq : List UInt8) (n : Int) :
    BMCpp.lfsrLengthStr v seq n
      = some (if n < 0 ∨ 8 * (seq.length : Int) < n then -1 else (bmLength (natOfBytes seq) n.toNat : Int)) := by
  unfold BMCpp.lfsrLengthStr lfsrLength
  by_cases h : n < 0 ∨ 8 * (seq.length : Int) < n
  · rw [if_pos h, if_pos h]
  · rw [if_neg h, if_neg h, impl_eq v seq n.toNat (by omega)]
    rfl

/-- portable variant: `cppPortable bytes n = bmLength (bitsOfBytes bytes) n` on well-formed input. -/
theorem cpp_portable_simulates_native (seq : List UInt8) (n : Nat) (h : n ≤ 8 * seq.length) :
    BMCpp.lfsrLengthStr .portable seq n = some (bmLength (natOfBytes seq) n : Int) := by
  rw [cpp_simulates_native, if_neg (by omega)]
  rfl

/-- CLMUL variant: `cppClmul bytes n = bmLength (bitsOfBytes bytes) n` on well-formed input. -/
theorem cpp_clmul_simulates_native (seq : List UInt8) (n : Nat) (h : n ≤ 8 * seq.length) :
    BMCpp.lfsrLengthStr .clmul seq n = some (bmLength (natOfBytes seq) n : Int) := by
  rw [cpp_simulates_native, if_neg (by omega)]
  rfl

/-- no out-of-bounds vector access is reachable through `LfsrLengthStr`, for any input. -/
theorem cpp_no_undefined_behaviour (v : Variant) (seq : List UInt8) (n : Int) :
    BMCpp.lfsrLengthStr v seq n ≠ none := by
  rw [cpp_simulates_native]
  exact Option.some_ne_none _

/-- the two variants compute the same function. -/
theorem cpp_variants_agree (seq : List UInt8) (n : Int) :
    BMCpp.lfsrLengthStr .portable seq n = BMCpp.lfsrLengthStr .clmul seq n := by
  rw [cpp_simulates_native, cpp_simulates_native]

/-- the value Model/BM.lean ASSUMED for the C++ code (`Paranoid.lfsrLengthStr`, op `bm.cpp`, and
through it `linearComplexity`, the model of the Python wrapper) is the value the word-level
model computes. -/
theorem cpp_matches_wrapper_model (v : Variant) (seq : List UInt8) (n : Int) :
    BMCpp.lfsrLengthStr v seq n = some (Paranoid.lfsrLengthStr seq.length (natOfBytes seq) n) := by
  rw [cpp_simulates_native]
  rfl

/-- **C14 for the C++ code**: for every byte string and `0 ≤ n ≤ 8·|seq|`, both variants return
the length of the shortest LFSR generating the first `n` bits of the sequence carried by the
bytes (an LFSR of that length generates it and none shorter does; equivalently the brute-force
minimum over all tap vectors). -/
theorem cpp_is_shortest_lfsr (v : Variant) (seq : List UInt8) (n : Nat) (h : n ≤ 8 * seq.length) :
    ∃ L : Nat, BMCpp.lfsrLengthStr v seq n = some (L : Int) ∧
      IsShortestLfsr (bitsOf (natOfBytes seq) n) L ∧
      L = shortestLfsr (bitsOf (natOfBytes seq) n) := by
  refine ⟨bmLength (natOfBytes seq) n, ?_, (C14.native_is_shortest_lfsr _ n).2⟩
  cases v
  · exact cpp_portable_simulates_native seq n h
  · exact cpp_clmul_simulates_native seq n h

/-- `-1` exactly outside `0 ≤ n ≤ 8·|seq|`. -/
theorem cpp_minus_one_iff (v : Variant) (seq : List UInt8) (n : Int) :
    BMCpp.lfsrLengthStr v seq n = some (-1) ↔ (n < 0 ∨ 8 * (seq.length : Int) < n) := by
  rw [cpp_simulates_native]
  constructor
  · intro h
    by_contra hc
    rw [if_neg hc] at h
    injection h with h
    omega
  · intro h
    rw [if_pos h]

/-- bits of the byte string at positions `≥ n` (the rest of the last byte, further bytes, the
zero padding of the last word) have no influence. -/
theorem cpp_ignores_high_bits (v : Variant) (seq seq' : List UInt8) (n : Nat)
    (h : n ≤ 8 * seq.length) (h' : n ≤ 8 * seq'.length)
    (hbits : natOfBytes seq % 2 ^ n = natOfBytes seq' % 2 ^ n) :
    BMCpp.lfsrLengthStr v seq n = BMCpp.lfsrLengthStr v seq' n := by
  rw [cpp_simulates_native, cpp_simulates_native, if_neg (by omega), if_neg (by omega),
    Int.toNat_natCast,
    C14.native_ignores_high_bits (natOfBytes seq), C14.native_ignores_high_bits (natOfBytes seq'),
    hbits]

/-! ### Bounded kernel evaluations (cross-checks, NOT the source of the claims above) -/

/-- a BOUNDED check: on all 2047 sequences of length `≤ 10` (packed into `(len + 7) / 8` bytes)
both word-level variants return `bmLength`; kernel evaluation of the executable definitions. -/
theorem bounded_cpp_le10 : cppAgreeUpTo 10 = true := cppAgreeUpTo_10

/-- a BOUNDED check: lengths 63, 64, 65, 127, 128, 129 × 13 hand-picked patterns (zeros, ones,
single ones at word boundaries, alternating, zero runs, two fixed constants), both variants. -/
theorem bounded_cpp_boundary : cppAgreeBoundary = true := cppAgreeBoundary_true

/-! ### Non-vacuity: concrete non-trivial instances -/

example : BMCpp.lfsrLengthStr .portable [0x8f, 0xb3] 16 = some 8 := by decide +kernel
example : BMCpp.lfsrLengthStr .clmul [0x8f, 0xb3] 16 = some 8 := by decide +kernel
example : natOfBytes [0x8f, 0xb3] = 0b1011001110001111 := by decide +kernel
example : wordsOfBytes [1, 2, 3, 4, 5, 6, 7, 8, 9] = [0x0807060504030201, 0x09] := by decide +kernel
example : BMCpp.lfsrLengthStr .clmul [1, 2, 3, 4, 5, 6, 7, 8, 9, 10, 11, 12, 13, 14, 15, 16, 17] 130
    = some 68 := by decide +kernel
example : BMCpp.lfsrLengthStr .portable [1] 9 = some (-1) ∧ BMCpp.lfsrLengthStr .clmul [1] (-1) = some (-1) ∧
    BMCpp.lfsrLengthStr .clmul [] 0 = some 0 := by decide +kernel
example : clmul 0xFFFFFFFFFFFFFFFF 0xFFFFFFFFFFFFFFFF = (0x5555555555555555, 0x5555555555555555) := by
  decide +kernel
example : clMul 0b101 0b111 = 0b11011 := by decide +kernel
/-- a block in which the carry path is taken: 63 zero bits, then ones — `carry_c` is set. -/
example : (innerLoop 64 0 (Inner.mk 0x8000000000000000 0x8000000000000000 1 0 0 1 0 0 0)).carryC = 1 := by
  decide +kernel

end Paranoid.C14Cpp
