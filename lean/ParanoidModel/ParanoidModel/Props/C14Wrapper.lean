/-
Props/C14Wrapper.lean — C14, the Python wrapper `berlekamp_massey.LinearComplexity` END TO END:
`size = (length + 7) // 8`, range check, `s.to_bytes(size, "little")`, pybind11 call of the C++
`LfsrLengthStr` (word-level model of Model/BMCpp.lean, both variants).

What was missing before this file (review finding F14): `Paranoid.linearComplexity`
(Model/BM.lean) ASSUMES the value the C++ code returns; `C14Cpp.cpp_matches_wrapper_model` relates
the word-level model to that assumed value for a GIVEN byte string, but nothing said that the byte
string the wrapper passes is the `to_bytes` of the integer, nor that `from_bytes ∘ to_bytes = id`
(`bytesOfNat` was used only in the bounded cross-check, lengths ≤ 10).  Here:

* `to_bytes_round_trip`, `to_bytes_round_trip_mod`, `from_bytes_round_trip`, `to_bytes_bit_order`:
  the round trip and the bit order for ALL lengths;
* `wrapper_glue`: the statement-by-statement model of the wrapper over the word-level C++ model
  (`BMCpp.linearComplexityCpp`) equals `Paranoid.linearComplexity` on EVERY input (errors
  included) — so the assumed value is a theorem now;
* `wrapper_spec`: total case analysis of the wrapper (which exception when, `-1`, or the shortest
  LFSR length);
* `linearComplexity_is_shortest_lfsr`: for every bit string given as `(length, s)` the Python-level
  result is the length of the shortest LFSR generating `s_0, s_1, …, s_{length-1}`, `s_i` = bit `i`
  of `s` (least significant first — the order in which `nist_suite.LinearComplexity` hands the
  blocks over: `nist_block_bits`);
* the C++ size limits as an explicit, decidable hypothesis `BMCpp.CppSizeOk`
  (`n ≤ 2^30`; `(|seq| + 7) / 8 < 2^31` words for `int size`, i.e. `|seq| ≤ 2^34 - 8` bytes), and
  `int_quantities_fit`: under it every `int`-typed quantity of the C++ code is below `2^31`.
-/
import ParanoidModel.Proofs.BMWrapper
import ParanoidModel.Props.C14Cpp
namespace Paranoid.C14Wrapper
open Paranoid Paranoid.Lfsr Paranoid.BMCpp

/-! ### `int.to_bytes` / `int.from_bytes`, every length -/

theorem to_bytes_length (k s : Nat) : (bytesOfNat k s).length = k := length_bytesOfNat k s

/-- **round trip, all lengths**: `from_bytes(to_bytes(s, k)) = s` whenever `to_bytes` does not
raise (`s < 256^k`). -/
theorem to_bytes_round_trip (k s : Nat) (h : s < 256 ^ k) : natOfBytes (bytesOfNat k s) = s :=
  natOfBytes_bytesOfNat k s h

/-- without the size hypothesis the low `k` bytes are kept. -/
theorem to_bytes_round_trip_mod (k s : Nat) : natOfBytes (bytesOfNat k s) = s % 256 ^ k :=
  natOfBytes_bytesOfNat_mod k s

/-- every byte string is `to_bytes` of its `from_bytes` (so the two are mutually inverse
bijections between `{s < 256^k}` and byte strings of length `k`). -/
theorem from_bytes_round_trip (seq : List UInt8) :
    bytesOfNat seq.length (natOfBytes seq) = seq ∧ natOfBytes seq < 256 ^ seq.length :=
  ⟨bytesOfNat_natOfBytes seq, natOfBytes_lt_pow256 seq⟩

/-- byte and bit order of `"little"`: bit `j` of `s` is bit `j mod 8` of byte `j / 8`. -/
theorem to_bytes_bit_order (k s j : Nat) (h : s < 256 ^ k) :
    s.testBit j = (((bytesOfNat k s)[j / 8]?).map (fun b => b.toNat.testBit (j % 8))).getD false := by
  rw [← natOfBytes_testBit, natOfBytes_bytesOfNat k s h]

/-- `to_bytes` raises `OverflowError` exactly for `s ≥ 256^size`. -/
theorem to_bytes_error_iff (size s : Nat) :
    (toBytesLE size s = .error .overflow ↔ 256 ^ size ≤ s) ∧
      (s < 256 ^ size → toBytesLE size s = .ok (bytesOfNat size s)) := by
  unfold toBytesLE
  constructor
  · constructor
    · intro h; by_contra hc; rw [if_neg hc] at h; cases h
    · intro h; rw [if_pos h]
  · intro h; rw [if_neg (by omega), bytesLE_eq]

/-! ### the wrapper glue -/

theorem lcSize_bounds (length : Int) (h : ¬ (lcSize length < 0 ∨ 2 ^ 31 ≤ lcSize length)) :
    -7 ≤ length ∧ length ≤ 8 * ((lcSize length).toNat : Int) ∧ (lcSize length).toNat < 2 ^ 31 := by
  unfold lcSize at *
  rw [Int.fdiv_eq_ediv_of_nonneg _ (by omega)] at *
  omega

/-- **wrapper glue**: the wrapper executed statement by statement over the WORD-LEVEL C++ model
(`to_bytes`, pybind11 `int` conversion, `LfsrLengthStr` of either variant) returns, on EVERY input
`(s, length)`, exactly what Model/BM.lean's `linearComplexity` (which assumed the C++ value)
returns; the C++ model never runs into the undefined behaviour it can represent, an out-of-bounds
access (`some`).  NOTE (second review, L27): a statement about the MODEL for every `(s, length)`; the model's
`int`s are unbounded, so it is a statement about the C++ code only under `CppSizeOk` (`length ≤ 2^30`) —
see Props/C14WrapperSized.lean. -/
theorem wrapper_glue (v : Variant) (s : Nat) (length : Int) :
    linearComplexityCpp v s length = (linearComplexity s length).map some := by
  unfold linearComplexityCpp linearComplexity toBytesLE
  by_cases h1 : lcSize length < 0 ∨ 2 ^ 31 ≤ lcSize length
  · rw [if_pos h1, if_pos h1]; rfl
  · rw [if_neg h1, if_neg h1]
    obtain ⟨hlo, hhi, hsz⟩ := lcSize_bounds length h1
    have hp : (256 : Nat) ^ (lcSize length).toNat = 2 ^ (8 * (lcSize length).toNat) := by
      rw [Nat.pow_mul]
    rw [hp]
    by_cases h2 : 2 ^ (8 * (lcSize length).toNat) ≤ s
    · rw [if_pos h2, if_pos h2]; rfl
    · rw [if_neg h2, if_neg h2]
      by_cases h3 : (2 : Int) ^ 31 ≤ length
      · rw [if_pos h3]
        simp only
        rw [if_pos (Or.inr h3)]; rfl
      · rw [if_neg h3]
        simp only
        rw [if_neg (by omega)]
        rw [bytesLE_eq, C14Cpp.cpp_simulates_native, length_bytesOfNat,
          natOfBytes_bytesOfNat _ s (by rw [hp]; omega)]
        by_cases h4 : length < 0
        · rw [if_pos h4, if_pos (Or.inl h4)]; rfl
        · rw [if_neg h4, if_neg (by omega)]; rfl

/-- no OUT-OF-BOUNDS ACCESS (the one kind of undefined behaviour the word-level model represents, result
`none`) is reachable through the Python wrapper, for every `(s, length)`.
NOTE (second review, L27): this theorem carries no `CppSizeOk` and says NOTHING about signed overflow, which
the model (unbounded `int`s) cannot represent: for 2^30 < length < 2^31 the wrapper calls the C++ code and
`2 * lfsr_len` can overflow `int` (real undefined behaviour, reachable).  The statement "no undefined
behaviour of the C++ code" holds under `CppSizeOk` only:
`C14WrapperSized.wrapper_no_undefined_behaviour_sized`. -/
theorem wrapper_no_undefined_behaviour (v : Variant) (s : Nat) (length : Int) (r : Option Int)
    (h : linearComplexityCpp v s length = .ok r) : r ≠ none := by
  rw [wrapper_glue] at h
  cases hl : linearComplexity s length with
  | error e => rw [hl] at h; cases h
  | ok x => rw [hl] at h; cases h; simp

/-- both variants behind the wrapper are the same function. -/
theorem wrapper_variants_agree (s : Nat) (length : Int) :
    linearComplexityCpp .portable s length = linearComplexityCpp .clmul s length := by
  rw [wrapper_glue, wrapper_glue]

/-- **total specification of the wrapper** (every `s ≥ 0`, every integer `length`):
`ValueError` iff `size = (length+7)//8 ∉ [0, 2^31)`; else `OverflowError` iff `s ≥ 256^size`;
else `TypeError` iff `length ≥ 2^31` (pybind11 `int`); else `-1` iff `length < 0`
(`length ∈ {-7..-1}`, `s = 0`); else the length of the shortest LFSR of the first `length` bits.
NOTE (second review, L27): "EVERY (s, length)" is about the model; for 2^30 < length < 2^31 (last branch) the
C++ code may overflow `int` and need not return this value.  Sized form: `C14WrapperSized.wrapper_spec_sized`. -/
theorem wrapper_spec (v : Variant) (s : Nat) (length : Int) :
    linearComplexityCpp v s length =
      if lcSize length < 0 ∨ 2 ^ 31 ≤ lcSize length then .error .valueError
      else if 256 ^ (lcSize length).toNat ≤ s then .error .overflow
      else if 2 ^ 31 ≤ length then .error .typeError
      else if length < 0 then .ok (some (-1))
      else .ok (some (shortestLfsr (bitsOf s length.toNat) : Int)) := by
  rw [wrapper_glue]
  unfold linearComplexity
  rw [show (256 : Nat) ^ (lcSize length).toNat = 2 ^ (8 * (lcSize length).toNat) by rw [Nat.pow_mul]]
  split
  · rfl
  · split
    · rfl
    · split
      · rfl
      · split
        · rfl
        · rw [(C14.native_is_shortest_lfsr s length.toNat).2.2]; rfl

/-! ### size limits of the C++ code -/

/-- whenever the wrapper gets as far as calling the C++ code, its own checks already give
`|seq| = size < 2^31` bytes (`< 2^28` words) and `-7 ≤ length < 2^31`; the ONLY limit of
`CppSizeOk` the wrapper does not enforce is `length ≤ 2^30` (overflow of `2 * lfsr_len`). -/
theorem wrapper_enforces_size_limits (v : Variant) (s : Nat) (length : Int) (r : Option Int)
    (h : linearComplexityCpp v s length = .ok r) :
    (lcSize length).toNat < 2 ^ 31 ∧ -7 ≤ length ∧ length < 2 ^ 31 ∧
      (length ≤ 2 ^ 30 → CppSizeOk (lcSize length).toNat length) := by
  unfold linearComplexityCpp at h
  by_cases h1 : lcSize length < 0 ∨ 2 ^ 31 ≤ lcSize length
  · rw [if_pos h1] at h; cases h
  · rw [if_neg h1] at h
    obtain ⟨hlo, hhi, hsz⟩ := lcSize_bounds length h1
    have hlt : length < 2 ^ 31 := by
      by_contra hc
      cases hb : toBytesLE (lcSize length).toNat s with
      | error e => rw [hb] at h; cases h
      | ok ba =>
        rw [hb] at h
        simp only at h
        rw [if_pos (Or.inr (by omega))] at h
        cases h
    refine ⟨hsz, hlo, hlt, fun h30 => ⟨by omega, by omega, h30⟩⟩

/-- under `CppSizeOk` every `int`-typed quantity of `LfsrLengthImpl` stays below `2^31`: the loop
indices `i, j, i + j < n`, `lfsr_len` at loop index `i` (`= bmLength s i ≤ i`), the product
`2 * lfsr_len` that is compared with `i`, the assigned `i + 1 - lfsr_len ≤ n`, and
`size = seq.size()` (number of words). -/
theorem int_quantities_fit (seq : List UInt8) (n : Nat) (h : CppSizeOk seq.length n) :
    n < 2 ^ 31 ∧ (wordsOfBytes seq).length < 2 ^ 31 ∧
      ∀ s i : Nat, i < n → bmLength s i ≤ i ∧ 2 * bmLength s i < 2 ^ 31 ∧ i + 1 - bmLength s i ≤ n := by
  obtain ⟨hb, _, hn⟩ := h
  have hn' : n ≤ 2 ^ 30 := by exact_mod_cast hn
  refine ⟨by omega, by rw [length_wordsOfBytes]; omega, fun s i hi => ?_⟩
  have hle : bmLength s i ≤ i := by
    have hmin := (C14.native_is_shortest_lfsr s i).2.1.2 (List.replicate i false)
      (generates_of_length_ge _ _ (by simp [bitsOf_length]))
    simpa using hmin
  omega

/-! ### the composed statement -/

/-- the block the NIST linear-complexity test passes (`util.SplitSequence`: block `i` is
`(bits >> i·m) & (2^m - 1)`, handed over as `(block, m)`) carries the bits
`bits_{i·m}, …, bits_{i·m+m-1}` in this order. -/
theorem nist_block_bits (bits i m : Nat) :
    bitsOf ((bits >>> (i * m)) % 2 ^ m) m = (List.range m).map fun j => bits.testBit (i * m + j) := by
  unfold bitsOf
  apply List.map_congr_left
  intro j hj
  rw [List.mem_range] at hj
  rw [Nat.testBit_mod_two_pow, Nat.testBit_shiftRight]
  simp [hj]

/-- **C14 for the Python entry point, end to end**: for every bit string `s_0 … s_{length-1}`
given as `(length, s = Σ 2^i s_i)` — more generally every `s` that fits the `size = ⌈length/8⌉`
bytes it is serialised to — within the size limits of the C++ code (`CppSizeOk`: here just
`length ≤ 2^30`), `LinearComplexity(s, length)` through `to_bytes`, the pybind11 call and either
C++ variant returns `L` = the length of the shortest LFSR generating `s_0, …, s_{length-1}`
(bit `i` of `s` is `s_i`): an LFSR of length `L` generates it, none shorter does, and `L` is the
brute-force minimum; the same value as `LinearComplexityNative`. -/
theorem linearComplexity_is_shortest_lfsr (v : Variant) (s length : Nat)
    (hsize : CppSizeOk ((length + 7) / 8) length) (hs : s < 256 ^ ((length + 7) / 8)) :
    ∃ L : Nat, linearComplexityCpp v s length = .ok (some (L : Int)) ∧
      IsShortestLfsr (bitsOf s length) L ∧ L = shortestLfsr (bitsOf s length) ∧
      linearComplexityNative s length = .ok L := by
  obtain ⟨_, _, h30⟩ := hsize
  have hsz : lcSize (length : Int) = ((length + 7) / 8 : Nat) := by
    unfold lcSize
    rw [Int.fdiv_eq_ediv_of_nonneg _ (by omega)]; omega
  refine ⟨bmLength s length, ?_, (C14.native_is_shortest_lfsr s length).2.1,
    (C14.native_is_shortest_lfsr s length).2.2, (C14.native_is_shortest_lfsr s length).1⟩
  rw [wrapper_spec, hsz, if_neg (by omega), Int.toNat_natCast, if_neg (by omega), if_neg (by omega),
    if_neg (by omega), Int.toNat_natCast, (C14.native_is_shortest_lfsr s length).2.2]

/-- the `(length, int)` form of the property text: `s < 2^length`. -/
theorem linearComplexity_is_shortest_lfsr_bits (v : Variant) (s length : Nat)
    (hlen : length ≤ 2 ^ 30) (hs : s < 2 ^ length) :
    ∃ L : Nat, linearComplexityCpp v s length = .ok (some (L : Int)) ∧
      IsShortestLfsr (bitsOf s length) L ∧ L = shortestLfsr (bitsOf s length) ∧
      linearComplexityNative s length = .ok L := by
  apply linearComplexity_is_shortest_lfsr v s length
  · exact ⟨by omega, by omega, by exact_mod_cast hlen⟩
  · have : 2 ^ length ≤ 256 ^ ((length + 7) / 8) := by
      rw [show (256 : Nat) = 2 ^ 8 from rfl, ← Nat.pow_mul]
      exact Nat.pow_le_pow_right (by omega) (by omega)
    omega

/-- … and for block `i` of the NIST linear-complexity test (block size `m ≤ 2^30`): the value the
test records is the shortest-LFSR length of `bits_{i·m}, …, bits_{i·m+m-1}`. -/
theorem nist_block_linear_complexity (v : Variant) (bits i m : Nat) (hm : m ≤ 2 ^ 30) :
    linearComplexityCpp v ((bits >>> (i * m)) % 2 ^ m) m =
      .ok (some (shortestLfsr ((List.range m).map fun j => bits.testBit (i * m + j)) : Int)) := by
  obtain ⟨L, h1, _, h3, _⟩ := linearComplexity_is_shortest_lfsr_bits v ((bits >>> (i * m)) % 2 ^ m) m
    hm (Nat.mod_lt _ (Nat.two_pow_pos m))
  rw [h1, h3, nist_block_bits]

/-! ### Non-vacuity -/

example : bytesOfNat 3 0x01b38f = [0x8f, 0xb3, 0x01] ∧ natOfBytes [0x8f, 0xb3, 0x01] = 0x01b38f := by
  decide +kernel
example : CppSizeOk ((500 + 7) / 8) 500 := by decide +kernel
example : linearComplexityCpp .clmul 0b1011001110001111 16 = .ok (some 8) ∧
    linearComplexityCpp .portable 0b1011001110001111 16 = .ok (some 8) := by decide +kernel
example : linearComplexityCpp .portable 0x1ff 8 = .error .overflow ∧
    linearComplexityCpp .clmul 0 (-3) = .ok (some (-1)) ∧
    linearComplexityCpp .clmul 0 (-8) = .error .valueError ∧
    linearComplexityCpp .clmul 5 (-3) = .error .overflow := by decide +kernel
example : shortestLfsr (bitsOf 0b0111001 7) = 3 ∧
    linearComplexityCpp .clmul 0b0111001 7 = .ok (some 3) := by decide +kernel

end Paranoid.C14Wrapper
