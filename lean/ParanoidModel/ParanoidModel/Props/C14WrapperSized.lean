/-
Props/C14WrapperSized.lean — what `C14Wrapper.wrapper_no_undefined_behaviour` / `wrapper_glue` /
`wrapper_spec` say about the C++ code, with the size hypothesis IN THE STATEMENT (second review, L27).

The word-level model (Model/BMCpp.lean) represents the C `int` variables `n, i, j, lfsr_len, size` as
UNBOUNDED naturals and marks exactly one kind of undefined behaviour — an out-of-bounds vector access — by the
result `none`.  Signed-integer overflow (also undefined behaviour in C++) is NOT representable in the model:
it is excluded by the hypothesis `BMCpp.CppSizeOk`, under which `C14Wrapper.int_quantities_fit` shows that
every `int` quantity stays below 2^31.

Consequently the three theorems of Props/C14Wrapper.lean that are stated for EVERY `(s, length)` are
statements about the MODEL:
  * `wrapper_no_undefined_behaviour`: the model never performs an out-of-bounds access (`none`);
  * `wrapper_glue`, `wrapper_spec`: the model computes the shortest-LFSR length;
and they are statements about the C++ code only where the model is the C++ code, i.e. under `CppSizeOk`.
The wrapper's own checks enforce all of `CppSizeOk` except `length ≤ 2^30`
(`C14Wrapper.wrapper_enforces_size_limits`).  For 2^30 < length < 2^31 the wrapper DOES call the C++ code,
`lfsr_len` can exceed 2^30 (e.g. the sequence 0^(2^30) 1 has shortest LFSR length 2^30 + 1) and the next
evaluated comparison `2 * lfsr_len <= i` overflows `int`: real undefined behaviour, reachable through the
Python wrapper, about which nothing is proved.  (Not reproduced on the real code: it needs a 128 MiB input
and ~2^54 word operations.  The reachability argument is informal, not a theorem.)

Here: the same statements with `CppSizeOk` as a hypothesis, plus the conclusion that no `int` overflows.
-/
import ParanoidModel.Props.C14Wrapper
namespace Paranoid.C14WrapperSized
open Paranoid Paranoid.Lfsr Paranoid.BMCpp

/-- ★ no undefined behaviour of the C++ code — neither an out-of-bounds access (`r ≠ none`) nor a signed
overflow (every `int` quantity of `LfsrLengthImpl` is below 2^31) — is reachable through the Python wrapper
WITHIN THE SIZE LIMITS `CppSizeOk` (given the wrapper's own checks: `length ≤ 2^30`). -/
theorem wrapper_no_undefined_behaviour_sized (v : Variant) (s : Nat) (length : Int) (r : Option Int)
    (hsz : CppSizeOk (lcSize length).toNat length)
    (h : linearComplexityCpp v s length = .ok r) :
    r ≠ none ∧
    (0 ≤ length →
      length.toNat < 2 ^ 31 ∧ (wordsOfBytes (bytesOfNat (lcSize length).toNat s)).length < 2 ^ 31 ∧
      ∀ s' i : Nat, i < length.toNat →
        bmLength s' i ≤ i ∧ 2 * bmLength s' i < 2 ^ 31 ∧ i + 1 - bmLength s' i ≤ length.toNat) := by
  refine ⟨C14Wrapper.wrapper_no_undefined_behaviour v s length r h, fun h0 => ?_⟩
  have hfit := C14Wrapper.int_quantities_fit (bytesOfNat (lcSize length).toNat s) length.toNat
    (by
      rw [C14Wrapper.to_bytes_length]
      obtain ⟨a, b, c⟩ := hsz
      exact ⟨a, by omega, by rw [Int.toNat_of_nonneg h0]; exact c⟩)
  exact hfit

/-- the only part of `CppSizeOk` the caller has to supply: whenever the wrapper returns, `length ≤ 2^30`
gives `CppSizeOk` for the byte string it passed. -/
theorem sized_of_le (v : Variant) (s : Nat) (length : Int) (r : Option Int)
    (h : linearComplexityCpp v s length = .ok r) (h30 : length ≤ 2 ^ 30) :
    CppSizeOk (lcSize length).toNat length :=
  (C14Wrapper.wrapper_enforces_size_limits v s length r h).2.2.2 h30

/-- ★ the total specification of the wrapper restricted to the lengths at which the model is the C++ code
(`length ≤ 2^30`; the `TypeError` branch `length ≥ 2^31` of `C14Wrapper.wrapper_spec` is outside). -/
theorem wrapper_spec_sized (v : Variant) (s : Nat) (length : Int) (h30 : length ≤ 2 ^ 30) :
    linearComplexityCpp v s length =
      if lcSize length < 0 then .error .valueError
      else if 256 ^ (lcSize length).toNat ≤ s then .error .overflow
      else if length < 0 then .ok (some (-1))
      else .ok (some (shortestLfsr (bitsOf s length.toNat) : Int)) := by
  rw [C14Wrapper.wrapper_spec]
  have hlt : ¬ (2 : Int) ^ 31 ≤ length := by omega
  have hsz : ¬ (2 : Int) ^ 31 ≤ lcSize length := by
    unfold lcSize
    rw [Int.fdiv_eq_ediv_of_nonneg _ (by omega)]
    omega
  by_cases h1 : lcSize length < 0
  · rw [if_pos (Or.inl h1), if_pos h1]
  · rw [if_neg (by intro hc; rcases hc with hc | hc; exact h1 hc; exact hsz hc), if_neg h1, if_neg hlt]

/-- both variants agree (sized form; the unsized `C14Wrapper.wrapper_variants_agree` is about the model). -/
theorem wrapper_variants_agree_sized (s : Nat) (length : Int) (_h30 : length ≤ 2 ^ 30) :
    linearComplexityCpp .portable s length = linearComplexityCpp .clmul s length :=
  C14Wrapper.wrapper_variants_agree s length

/-! ### Non-vacuity, and the lengths the hypothesis excludes -/

example : CppSizeOk (lcSize 500).toNat 500 ∧ linearComplexityCpp .clmul 0b1011001110001111 16 = .ok (some 8) ∧
    CppSizeOk (lcSize 16).toNat 16 := by decide +kernel
-- the largest allowed length, and the first excluded one: the wrapper's own checks pass (size < 2^31,
-- length < 2^31), `CppSizeOk` fails
example : CppSizeOk (lcSize (2 ^ 30)).toNat (2 ^ 30) ∧ ¬ CppSizeOk (lcSize (2 ^ 30 + 1)).toNat (2 ^ 30 + 1) ∧
    ¬ (lcSize (2 ^ 30 + 1) < 0 ∨ 2 ^ 31 ≤ lcSize (2 ^ 30 + 1)) ∧ ¬ ((2 : Int) ^ 31 ≤ 2 ^ 30 + 1) := by
  decide +kernel

end Paranoid.C14WrapperSized
