/-
Props/C15.lean — "Bit-sequence primitives match their definitions for every string and length".
Property theorems only; helper lemmas live in Proofs/BitSeq/*.lean, the one-line definitions in
Spec/BitDefs.lean, the executable model of randomness_tests/util.py in Model/BitSeq.lean.

A bit string is a natural number `seq` together with a length `n`; bit `i` is `seq.testBit i`,
bit 0 is the first bit.  "Well-formed" means `seq < 2^n`.  Every statement is universally
quantified: no bound on the string, its length or the parameter.
-/
import ParanoidModel.Proofs.BitSeq
namespace Paranoid.C15
open Paranoid Paranoid.BitSeq Paranoid.BitDefs

/-! ### population count -/

/-- BitCount: `bitCount s = Σ_{i<n} bit i` for every `n` that bounds the bit length. -/
theorem bitCount_def (s n : Nat) (h : s < 2 ^ n) : bitCount s = popcountDef s n := by
  rw [popcountDef_eq_pc]; exact bitCount_eq_pc s n h

/-! ### runs -/

/-- Runs: the popcount of `s ^ (s >> 1)` with the leading-zero correction is the number of
maximal constant blocks of the `n`-bit string, for every well-formed string (including `n = 0`). -/
theorem runs_def (s n : Nat) (h : s < 2 ^ n) : runs s n = runsDef s n := runs_eq s n h

/-- the block count of the definition is the number of groups of equal adjacent bits
(`List.splitBy`). -/
theorem runsDef_eq_groups (s n : Nat) : runsDef s n = ((bitsOf s n).splitBy (· == ·)).length :=
  blockCount_eq_splitBy _

/-- LongestRunOfOnes: doubling followed by binary refinement returns the length of the longest
run of ones, for every `seq`. -/
theorem longestRunOfOnes_def (seq : Nat) : IsLongestRun seq (longestRunOfOnes seq) :=
  longestRunOfOnes_spec seq

/-- the longest-run length is unique, so `longestRunOfOnes_def` pins the value down. -/
theorem longestRun_unique (seq k k' : Nat) (h : IsLongestRun seq k) (h' : IsLongestRun seq k') :
    k = k' := isLongestRun_unique seq k k' h h'

/-- OverlappingRunsOfOnes: for `m ≥ 1` the result is the number of positions at which `m`
consecutive ones start (`n` any bound on the bit length). -/
theorem overlappingRunsOfOnes_def (s m n : Nat) (hm : 1 ≤ m) (h : s < 2 ^ n) :
    overlappingRunsOfOnes s m = .ok (overlapDef s m n) := overlappingRunsOfOnes_spec s m n hm h

/-- `m = 0` makes Python shift by `-1`: ValueError. -/
theorem overlappingRunsOfOnes_zero (s : Nat) : overlappingRunsOfOnes s 0 = .error .valueError := rfl

/-! ### bit reversal and ±1 expansion -/

/-- ReverseBits, every input: OverflowError exactly when `seq` does not fit into `⌈n/8⌉` bytes,
otherwise bit `i` of the result is bit `n-1-i` of `seq` for `i < n` and nothing else is set
(garbage bits of `seq` inside the last byte are dropped). -/
theorem reverseBits_def (seq n : Nat) :
    (bitLength seq > 8 * ((n + 7) / 8) ∧ reverseBits seq n = .error .overflow) ∨
    (bitLength seq ≤ 8 * ((n + 7) / 8) ∧ reverseBits seq n = .ok (reverseDef seq n)) :=
  reverseBits_spec seq n

/-- for a well-formed string there is no error. -/
theorem reverseBits_wf (seq n : Nat) (h : seq < 2 ^ n) :
    reverseBits seq n = .ok (reverseDef seq n) := by
  have hb := (lt_two_pow_iff_bitLength_le seq n).1 h
  rcases reverseBits_spec seq n with ⟨h1, _⟩ | ⟨_, h2⟩
  · omega
  · exact h2

/-- bit `i` of the reversal is bit `n-1-i`. -/
theorem reverseDef_testBit (seq n i : Nat) :
    (reverseDef seq n).testBit i = (decide (i < n) && seq.testBit (n - 1 - i)) :=
  testBit_ofBits _ n i

/-- Bits (with fixes/D15-bits-empty.diff): the ±1 expansion of every well-formed string of every
length, including the empty one. -/
theorem bits_def (seq n : Nat) (h : seq < 2 ^ n) : bits seq n = bitsDef seq n := bits_spec seq n h

/-- the pinned code agrees with the definition for every length except 0 … -/
theorem bitsPinned_def_pos (seq n : Nat) (hn : 0 < n) (h : seq < 2 ^ n) :
    bitsPinned seq n = bitsDef seq n := by
  have := bits_spec seq n h
  unfold bits at this
  rwa [if_neg (by omega)] at this

/-- … and violates it for the empty bit string (D15): `Bits(0, 0) = [-1]`. -/
theorem bits_pinned_fails : ¬ (bitsPinned 0 0 = bitsDef 0 0) := by decide +kernel

/-! ### block splitting and interleaved scattering -/

/-- SplitSequence, every input (also strings longer or shorter than `n`): block `i` is
`(seq >>> (i*m)) % 2^m`, `i < n / m`; `m = 0` raises ZeroDivisionError. -/
theorem splitSequence_def (seq n m : Nat) :
    splitSequence seq n m = if m = 0 then .error .zeroDivision else .ok (splitDef seq n m) :=
  splitSequence_spec seq n m

/-- the byte-aligned fast path (taken when `8 ∣ m`) computes the blocks. -/
theorem splitFast_def (seq k m : Nat) (h8 : m % 8 = 0) (hm : m ≠ 0) :
    splitFast seq k m = (List.range k).map (fun i => (seq >>> (i * m)) % 2 ^ m) := by
  rcases splitFast_eq seq k m h8 with h | h
  · rw [h, splitDef, Nat.mul_div_cancel _ (by omega)]
  · exact absurd h hm

/-- the general path computes the blocks for every `m` … -/
theorem splitSlow_def (seq k m : Nat) :
    splitSlow seq k m = (List.range k).map (fun i => (seq >>> (i * m)) % 2 ^ m) :=
  splitSlow_eq seq k m

/-- … so both paths agree wherever the fast one is chosen. -/
theorem split_paths_agree (seq k m : Nat) (h8 : m % 8 = 0) (hm : m ≠ 0) :
    splitFast seq k m = splitSlow seq k m := by
  rw [splitFast_def seq k m h8 hm, splitSlow_def]

/-- Scatter, every input: `m = 0` raises ZeroDivisionError; otherwise `m` streams, stream `i`
holding exactly the bits `i, i+m, i+2m, …` (both the short-input and the string-slicing branch). -/
theorem scatter_def (seq m : Nat) :
    (m = 0 ∧ scatter seq m = .error .zeroDivision) ∨
    (0 < m ∧ ∃ res, scatter seq m = .ok res ∧ IsScatter seq m res) := scatter_spec seq m

/-! ### sub-sequences and pattern frequencies -/

/-- the window of the definitions is the shift-and-mask expression. -/
theorem window_def (s m i : Nat) : window s m i = (s >>> i) % 2 ^ m := window_eq s m i

/-- SubSequences without wrap-around yields the windows at positions `0 … n-m`, in order. -/
theorem subSequences_nowrap_def (seq n m : Nat) (h : seq < 2 ^ n) (hm1 : 1 ≤ m) (hm : m ≤ n) :
    subSequences seq n m false = .ok (subSeqDef seq n m false) := subSequences_nowrap seq n m h hm1 hm

/-- SubSequences with wrap-around yields every cyclic window exactly once (the code documents the
order as unspecified; it is a rotation of the start positions). -/
theorem subSequences_wrap_def (seq n m : Nat) (h : seq < 2 ^ n) (hm1 : 1 ≤ m) (hm : m ≤ n) :
    ∃ l, subSequences seq n m true = .ok l ∧ l.Perm (subSeqDef seq n m true) :=
  subSequences_wrap seq n m h hm1 hm

/-- the three ValueErrors of SubSequences. -/
theorem subSequences_errors (seq n m : Nat) (wrap : Bool)
    (h : m = 0 ∨ bitLength seq > n ∨ m > n) : subSequences seq n m wrap = .error .valueError := by
  unfold subSequences
  by_cases h1 : m = 0
  · rw [if_pos h1]
  · rw [if_neg h1]
    by_cases h2 : bitLength seq > n
    · rw [if_pos h2]
    · rw [if_neg h2, if_pos (by omega)]

/-- FrequencyCount, slow path: entry `p` is `#{i | window i = p}` — over the `n` cyclic start
positions with wrap-around (every `m ≤ n`), over the `n-m+1` fitting positions without
(`1 ≤ m ≤ n`), for every well-formed string. -/
theorem frequencyCountSlow_def (seq n m : Nat) (wrap : Bool) (h : seq < 2 ^ n) (hm : m ≤ n)
    (hm1 : wrap = false → 1 ≤ m) :
    frequencyCountSlow seq n m wrap =
      .ok ((List.range (2 ^ m)).map (fun p => (freqDef seq n m wrap p : Int))) :=
  frequencyCountSlow_spec seq n m wrap h hm hm1

/-- FrequencyCount, 4-bit-stride fast path (`m+3`-bit tallies): the same values, wherever the
path is defined (`m + 3 ≤ n`). -/
theorem frequencyCountFast_def (seq n m : Nat) (wrap : Bool) (h : seq < 2 ^ n) (hm3 : m + 3 ≤ n)
    (hm1 : wrap = false → 1 ≤ m) :
    frequencyCountFast seq n m wrap =
      .ok ((List.range (2 ^ m)).map (fun p => (freqDef seq n m wrap p : Int))) :=
  frequencyCountFast_spec seq n m wrap h hm3 hm1

/-- the fast path gives the same answer as the slow path. -/
theorem frequencyCount_paths_agree (seq n m : Nat) (wrap : Bool) (h : seq < 2 ^ n)
    (hm3 : m + 3 ≤ n) (hm1 : wrap = false → 1 ≤ m) :
    frequencyCountFast seq n m wrap = frequencyCountSlow seq n m wrap :=
  frequencyCountFast_eq_slow seq n m wrap h hm3 hm1

/-- FrequencyCount as the code runs it (path chosen by `50 * 2^m < n ∧ m < 24`). -/
theorem frequencyCount_def (seq n m : Nat) (wrap : Bool) (h : seq < 2 ^ n) (hm : m ≤ n)
    (hm1 : wrap = false → 1 ≤ m) :
    frequencyCount seq n m wrap =
      .ok ((List.range (2 ^ m)).map (fun p => (freqDef seq n m wrap p : Int))) :=
  frequencyCount_spec seq n m wrap h hm hm1

/-- `m > n` raises ValueError on either path. -/
theorem frequencyCount_too_long (seq n m : Nat) (wrap : Bool) (h : m > n) :
    frequencyCount seq n m wrap = .error .valueError := by
  unfold frequencyCount frequencyCountFast frequencyCountSlow fcGuard
  simp [h]

/-- the empty pattern without wrap-around is outside the domain of the theorems above: the code
returns the wrap-around tally `[n]` (the correction loop `range(1, m)` is empty), whereas the
empty window fits at `n + 1` positions. Recorded, not claimed. -/
theorem frequencyCount_empty_pattern_nowrap (seq n : Nat) :
    frequencyCount seq n 0 false = frequencyCount seq n 0 true := by
  unfold frequencyCount frequencyCountFast frequencyCountSlow fcFinish
  have : ∀ res, fcUnwrap seq n 0 res = res := fun res => by simp [fcUnwrap]
  simp [this]

/-! ### binary matrix rank -/

/-- `_BinaryMatrixRankSmall`: `2^rank` is the number of distinct GF(2)-linear combinations of the
rows, for every matrix (empty, zero, rank-deficient, any shape). -/
theorem rankSmall_def (rows : List Nat) : 2 ^ rankSmall rows = spanSize rows := rankSmall_spec rows

/-- BinaryMatrixRank on fewer than 50 non-negative rows returns that rank. -/
theorem binaryMatrixRank_small_def (rows : List Nat) (h : rows.length < 50) :
    ∃ r, binaryMatrixRank (rows.map Int.ofNat) = .ok r ∧ 2 ^ r = spanSize rows := by
  refine ⟨rankSmall rows, ?_, rankSmall_spec rows⟩
  unfold binaryMatrixRank
  have h1 : (rows.map Int.ofNat).any (· < 0) = false := by
    simp only [List.any_eq_false, List.mem_map]
    rintro x ⟨y, _, rfl⟩
    simp
  have h2 : (rows.map Int.ofNat).map Int.toNat = rows := by
    rw [List.map_map]; conv => rhs; rw [← List.map_id rows]
    apply List.map_congr_left; intro a _; rfl
  simp only [h1, List.length_map, h, if_true, h2, Bool.false_eq_true, if_false]

/-- a negative row raises ValueError. -/
theorem binaryMatrixRank_negative (rows : List Int) (h : rows.any (· < 0) = true) :
    binaryMatrixRank rows = .error .valueError := by
  unfold binaryMatrixRank; rw [if_pos h]

/-- `_BinaryMatrixRankLarge` (table-driven elimination of several columns at once): it never
raises — no table entry is `None` or out of range when read, no loop runs out of fuel — and
`2^rank` is the number of distinct GF(2)-linear combinations of the rows, for every matrix. -/
theorem rankLarge_def (rows : List Nat) :
    ∃ r, rankLarge rows = .ok r ∧ 2 ^ r = spanSize rows := rankLarge_spec rows

/-- the table-driven path gives the same answer as the simple elimination, for every matrix
(whatever the row count, i.e. on both sides of the 50-row threshold and of every `step` threshold). -/
theorem rankLarge_eq_rankSmall (rows : List Nat) : rankLarge rows = .ok (rankSmall rows) :=
  rankLarge_eq_rankSmall_all rows

/-- BinaryMatrixRank, every matrix of non-negative rows, whichever path the size selects. -/
theorem binaryMatrixRank_def (rows : List Nat) :
    ∃ r, binaryMatrixRank (rows.map Int.ofNat) = .ok r ∧ 2 ^ r = spanSize rows := by
  refine ⟨rankSmall rows, ?_, rankSmall_spec rows⟩
  unfold binaryMatrixRank
  have h1 : (rows.map Int.ofNat).any (· < 0) = false := by
    simp only [List.any_eq_false, List.mem_map]
    rintro x ⟨y, _, rfl⟩
    simp
  have h2 : (rows.map Int.ofNat).map Int.toNat = rows := by
    rw [List.map_map]; conv => rhs; rw [← List.map_id rows]
    apply List.map_congr_left; intro a _; rfl
  simp only [h1, List.length_map, h2, Bool.false_eq_true, if_false]
  split
  · rfl
  · exact rankLarge_eq_rankSmall_all rows

/-! ### non-vacuity: the hypotheses are met by concrete non-trivial inputs, and the model
computes the expected values on them -/

example : (0b1011001110 : Nat) < 2 ^ 10 ∧ bitCount 0b1011001110 = 6 := by decide +kernel
example : runs 0b1011001110 10 = 6 ∧ runsDef 0b1011001110 10 = 6 := by decide +kernel
example : runs 0b0011001110 10 = 5 ∧ runsDef 0b0011001110 10 = 5 := by decide +kernel
example : longestRunOfOnes 0b111011111101111 = 6 := by decide +kernel
example : overlappingRunsOfOnes 0b011101111100 3 = .ok 4 ∧ overlapDef 0b011101111100 3 12 = 4 := by
  decide +kernel
example : reverseBits 0b1101 4 = .ok 0b1011 ∧ reverseDef 0b1101 4 = 0b1011 := by decide +kernel
example : reverseBits 0x1ff 8 = .error .overflow := by decide +kernel
example : bits 0b01101 5 = [1, -1, 1, 1, -1] ∧ bits 0 0 = [] := by decide +kernel
example : splitSequence 0b110100101101 12 3 = .ok [0b101, 0b101, 0b100, 0b110] := by decide +kernel
example : splitSequence 0xabcdef 24 8 = .ok [0xef, 0xcd, 0xab] := by decide +kernel
example : scatter 0b110100101101 3 = .ok [0b0011, 0b1000, 0b1111] := by decide +kernel
example : subSequences 0b1101 4 2 false = .ok [1, 2, 3] := by decide +kernel
example : subSequences 0b1101 4 2 true = .ok [3, 1, 2, 3] ∧
    subSeqDef 0b1101 4 2 true = [1, 2, 3, 3] := by decide +kernel
example : frequencyCountSlow 0b1101 4 2 true = .ok [0, 1, 1, 2] ∧
    frequencyCountSlow 0b1101 4 2 false = .ok [0, 1, 1, 1] := by decide +kernel
example : frequencyCountFast 0b110100101101 12 2 true = frequencyCountSlow 0b110100101101 12 2 true ∧
    frequencyCountFast 0b110100101101 12 2 false = .ok [1, 4, 4, 2] := by decide +kernel
example : fcUseFast 51 0 = true ∧ fcUseFast 50 0 = false ∧ fcUseFast 401 3 = true := by decide +kernel
example : rankSmall [0b110, 0b011, 0b101] = 2 ∧ spanSize [0b110, 0b011, 0b101] = 4 := by
  decide +kernel
example : rankLarge [0b110, 0b011, 0b101, 0, 0b1000] = .ok 3 := by decide +kernel

end Paranoid.C15
