/-
Props/C16.lean — "Verdict bookkeeping is faithful and monotone".
Property theorems only; helper lemmas live in Proofs/Bookkeeping.lean, Proofs/Checks.lean,
Proofs/CheckAll.lean.

Part 1 (util.py): statements over EVERY history `ops : List Op` of SetTestResult / AttachInfo /
AttachFactors calls on EVERY initial `TestInfo` (fresh, annotated by an earlier run, hand-edited
with duplicate names / inconsistent weak flag / unparsable attached values) and every library
version string.  `runOps` is a caller that survives the exception AttachFactors raises on an
unparsable stored value (the raising call mutates nothing).

Part 2 (checks and entry points): statements over every batch, every list of checks `steps`
(any subset, order, repetition of checks — the registry lists of paranoid.py are instances) and
EVERY verdict oracle (what each check decides about each artefact, which factors / discrete
logs it attaches, what the inner CheckAllEC of CheckIssuerKey decides about each issuer key).
Hypothesis `… = .ok (arts', r)` means "the call returned"; the only modelled exception is the one
of AttachFactors on an unparsable pre-existing value.

Reading of the property used for pre-annotated batches: `return = True → some artefact is weak`;
the converse is NOT intended (an artefact flagged by an earlier run stays weak while this run
returns False) — `return_iff` gives the exact relation.
-/
import ParanoidModel.Proofs.CheckAll
namespace Paranoid.C16
open Paranoid

/-! ## Part 1 — util.py, all histories -/

/-- After any history: the weak flag is never reset; position by position every old entry is
still there under the same name with result and severity not lowered (new entries are only
appended); a recorded version is never changed. -/
theorem ops_monotone (ver : String) (ti : TestInfo) (ops : List Op) :
    (ti.weak = true → (runOps ver ti ops).weak = true) ∧
    EntriesLe ti.results (runOps ver ti ops).results ∧
    (ti.version ≠ "" → (runOps ver ti ops).version = ti.version) :=
  let m := runOps_mono ver ti ops
  ⟨m.weak, m.entries, m.version⟩

/-- Per name: the entry `GetTestResult` returns keeps its name, a positive result stays
positive, the severity never decreases. -/
theorem ops_entry_monotone (ver : String) (ti : TestInfo) (ops : List Op) (n : String)
    (e : Entry) (h : getTestResult ti n = some e) :
    ∃ e', getTestResult (runOps ver ti ops) n = some e' ∧ e'.name = e.name ∧
      (e.result = true → e'.result = true) ∧ e.severity ≤ e'.severity := by
  obtain ⟨e', h1, h2⟩ := (runOps_mono ver ti ops).entries.find n e h
  exact ⟨e', h1, h2.1.symm, h2.2.1, h2.2.2⟩

/-- Entries are never duplicated: the number of entries with a given name stays what it was,
except that a missing name gets exactly one. -/
theorem ops_no_duplicates (ver : String) (ti : TestInfo) (ops : List Op) (n : String) :
    nameCount n (runOps ver ti ops).results ≤ max 1 (nameCount n ti.results) :=
  nameCount_runOps ver ti ops n

/-- Entry names stay unique when they were unique. -/
theorem ops_names_unique (ver : String) (ti : TestInfo) (ops : List Op)
    (h : (ti.results.map (·.name)).Nodup) :
    ((runOps ver ti ops).results.map (·.name)).Nodup :=
  runOps_names_nodup ver ti ops h

/-- The weak flag equals "some entry is positive" after any history, if it did before. -/
theorem ops_weak_iff (ver : String) (ti : TestInfo) (ops : List Op)
    (h : ti.weak = true ↔ ∃ e ∈ ti.results, e.result = true) :
    (runOps ver ti ops).weak = true ↔ ∃ e ∈ (runOps ver ti ops).results, e.result = true :=
  runOps_consistent ver ti ops h

/-- The version is set by the first SetTestResult on a `TestInfo` that has none, to the library
version, and never changed afterwards. -/
theorem ops_version (ver : String) (ti : TestInfo) (ops : List Op) :
    (runOps ver ti ops).version =
      if ti.version = "" ∧ ops.any isSet = true then ver else ti.version :=
  runOps_version ver ti ops

/-- `attach_union`: after any history that does not overwrite the attached entry `k` by a plain
AttachInfo, `GetAttachedFactors(k)` is the union of the initial set and of every factor list
attached under `k`, and is `None` only if it was `None` and nothing was attached under `k`. -/
theorem attach_union (ver : String) (ti : TestInfo) (ops : List Op) (k : String)
    (o : Option (List Int)) (h : getAttachedFactors ti k = .ok o)
    (hno : ∀ op ∈ ops, overwrites k op = false) :
    ∃ o', getAttachedFactors (runOps ver ti ops) k = .ok o' ∧
      (∀ x, MemO x o' ↔ MemO x o ∨ ∃ fs ∈ attachedUnder k ops, x ∈ fs) ∧
      (o' = none ↔ o = none ∧ attachedUnder k ops = []) :=
  runOps_factors ver ti ops k o h hno

/-- A recorded factor is never dropped (same hypothesis as `attach_union`). -/
theorem ops_factors_grow (ver : String) (ti : TestInfo) (ops : List Op) (k : String)
    (s : List Int) (h : getAttachedFactors ti k = .ok (some s))
    (hno : ∀ op ∈ ops, overwrites k op = false) :
    ∃ s', getAttachedFactors (runOps ver ti ops) k = .ok (some s') ∧ ∀ x ∈ s, x ∈ s' := by
  obtain ⟨o', h1, h2, h3⟩ := runOps_factors ver ti ops k (some s) h hno
  cases o' with
  | none => simp at h3
  | some s' =>
    refine ⟨s', h1, fun x hx => ?_⟩
    obtain ⟨t, ht, hxt⟩ := (h2 x).2 (Or.inl ⟨s, rfl, hx⟩)
    cases ht; exact hxt

/-- `GetHighestSeverity`: `None` iff no entry is positive, else the maximum severity among the
positive entries. -/
theorem highest_severity_spec (ti : TestInfo) :
    (getHighestSeverity ti = none ↔ ∀ e ∈ ti.results, e.result = false) ∧
    (∀ s, getHighestSeverity ti = some s →
      (∃ e ∈ ti.results, e.result = true ∧ e.severity = s) ∧
      (∀ e ∈ ti.results, e.result = true → e.severity ≤ s)) :=
  ⟨getHighestSeverity_none ti, getHighestSeverity_some ti⟩

/-! ## Part 2 — checks, `_CheckArtifacts`, entry points -/

/-- PRE-ANNOTATED (any) batch: the batch keeps its length and every artefact keeps its key
material; its weak flag is not reset, its old entries are kept position by position with result
and severity not lowered, its version is kept, entry names are not duplicated (and stay unique if
they were), and "weak = some entry positive" is preserved. -/
theorem checkArtifacts_monotone (var : Variant) (ver : String) (ec : List CheckSpec)
    (steps : List Step) (arts arts' : List Artifact) (r : Bool)
    (h : checkArtifacts var ver ec steps arts = .ok (arts', r)) :
    arts'.length = arts.length ∧
    ∀ (n : Nat) (a a' : Artifact), arts[n]? = some a → arts'[n]? = some a' → Later a a' := by
  obtain ⟨p, _, _⟩ := checkArtifacts_spec h
  exact ⟨p.length, fun n a a' ha ha' => actsBy_later (p.get n a a' ha ha')⟩

/-- Re-running checks never drops a recorded factor: for a key `k` that no check overwrites by a
plain AttachInfo (the checks use AttachInfo only for DISCRETE_LOG*), the stored set afterwards
contains the stored set before. -/
theorem checkArtifacts_factors_grow (var : Variant) (ver : String) (ec : List CheckSpec)
    (steps : List Step) (arts arts' : List Artifact) (r : Bool) (k : String)
    (hv : ∀ s ∈ steps, ∀ i k' x, (s.verdict i).info = some (k', x) → k' ≠ k)
    (h : checkArtifacts var ver ec steps arts = .ok (arts', r))
    (n : Nat) (a a' : Artifact) (ha : arts[n]? = some a) (ha' : arts'[n]? = some a')
    (s : List Int) (hs : getAttachedFactors a.info k = .ok (some s)) :
    ∃ s', getAttachedFactors a'.info k = .ok (some s') ∧ ∀ x ∈ s, x ∈ s' := by
  obtain ⟨p, _, _⟩ := checkArtifacts_spec h
  have hact := p.get n a a' ha ha'
  obtain ⟨o', h1, h2, h3⟩ := actsBy_factors hact k
    (overwrites_allOps var ver ec steps _ _ a k hv) (some s) hs
  cases o' with
  | none => simp at h3
  | some s' =>
    refine ⟨s', h1, fun x hx => ?_⟩
    obtain ⟨t, ht, hxt⟩ := (h2 x).2 (Or.inl ⟨s, rfl, hx⟩)
    cases ht; exact hxt

/-- The return value, exactly, for EVERY batch: some artefact is weak afterwards iff one was
weak before or the call returned True. -/
theorem return_iff (var : Variant) (ver : String) (ec : List CheckSpec)
    (steps : List Step) (arts arts' : List Artifact) (r : Bool)
    (h : checkArtifacts var ver ec steps arts = .ok (arts', r)) :
    (∃ a' ∈ arts', a'.info.weak = true) ↔ (∃ a ∈ arts, a.info.weak = true) ∨ r = true := by
  obtain ⟨p, q, _⟩ := checkArtifacts_spec h
  rw [q]
  exact exists_weak_iff (Pointwise.imp (fun _ _ _ hab => actsBy_weak hab) p)

/-- PRE-ANNOTATED batch: returned True → some artefact is weak. -/
theorem return_true_exists_weak (var : Variant) (ver : String) (ec : List CheckSpec)
    (steps : List Step) (arts arts' : List Artifact)
    (h : checkArtifacts var ver ec steps arts = .ok (arts', true)) :
    ∃ a' ∈ arts', a'.info.weak = true :=
  (return_iff var ver ec steps arts arts' true h).2 (Or.inr rfl)

/-- Batch without weak flags (in particular FRESH): returns True exactly when some artefact is
weak afterwards. -/
theorem fresh_return_iff (var : Variant) (ver : String) (ec : List CheckSpec)
    (steps : List Step) (arts arts' : List Artifact) (r : Bool)
    (hfresh : ∀ a ∈ arts, a.info.weak = false)
    (h : checkArtifacts var ver ec steps arts = .ok (arts', r)) :
    r = true ↔ ∃ a' ∈ arts', a'.info.weak = true := by
  rw [return_iff var ver ec steps arts arts' r h]
  constructor
  · exact Or.inr
  · rintro (⟨a, ha, hw⟩ | hr)
    · rw [hfresh a ha] at hw; cases hw
    · exact hr

/-- FRESH artefact, checks with pairwise different names: afterwards its result list is EXACTLY
the list of `expectedEntry`s of the steps, in the order the checks ran (`expectedEntry` is
`(check_name, verdict, severity rule)` for a step that applies to the artefact, nothing for a
step that does not); the weak flag is set exactly when one of the entries is positive; the
library version is recorded as soon as there is an entry. -/
theorem fresh_entries (var : Variant) (ver : String) (ec : List CheckSpec)
    (steps : List Step) (arts arts' : List Artifact) (r : Bool)
    (hnd : (steps.map (·.spec.name)).Nodup)
    (h : checkArtifacts var ver ec steps arts = .ok (arts', r))
    (n : Nat) (a a' : Artifact) (ha : arts[n]? = some a) (ha' : arts'[n]? = some a')
    (hfresh : a.info = TestInfo.empty) :
    a'.info.results = steps.filterMap (fun s => expectedEntry var ver ec s (statics arts) n a) ∧
    (a'.info.weak = true ↔ ∃ e ∈ a'.info.results, e.result = true) ∧
    a'.info.version = (if a'.info.results.isEmpty then "" else ver) := by
  obtain ⟨p, _, _⟩ := checkArtifacts_spec h
  have hact := p.get n a a' ha ha'
  rw [Nat.zero_add] at hact
  obtain ⟨h1, h2, h3⟩ := actsBy_fresh hact hfresh hnd
  refine ⟨h1, ?_, h3⟩
  rw [h2, List.any_eq_true]

/-- FRESH artefact: exactly one entry per check that applies to it — the names of its entries
are the names of the applicable steps (every signature for CheckIssuerKey, curve known for the
`needsCurve` checks, every artefact otherwise), in order, each once. -/
theorem fresh_one_entry_per_applicable_check (var : Variant) (ver : String) (ec : List CheckSpec)
    (steps : List Step) (arts arts' : List Artifact) (r : Bool)
    (hnd : (steps.map (·.spec.name)).Nodup)
    (h : checkArtifacts var ver ec steps arts = .ok (arts', r))
    (n : Nat) (a a' : Artifact) (ha : arts[n]? = some a) (ha' : arts'[n]? = some a')
    (hfresh : a.info = TestInfo.empty) :
    a'.info.results.map (·.name) =
      (steps.filter (fun s => s.spec.issuer || applicable s.spec a)).map (·.spec.name) := by
  obtain ⟨_, _, g⟩ := checkArtifacts_spec h
  rw [(fresh_entries var ver ec steps arts arts' r hnd h n a a' ha ha' hfresh).1,
    names_filterMap _ (fun s => s.spec.name) (fun s e he => expectedEntry_name he)]
  congr 1
  apply List.filter_congr
  intro s hs
  exact expectedEntry_isSome (g s hs) n a (List.mem_of_getElem? ha)

/-- FRESH artefact: the entry stored under a check's name is the expected entry of that check:
for every check but CheckIssuerKey `(check_name, verdict, sevFor)` if the check applies to the
artefact and no entry otherwise. -/
theorem fresh_entry_of_check (var : Variant) (ver : String) (ec : List CheckSpec)
    (steps : List Step) (arts arts' : List Artifact) (r : Bool)
    (hnd : (steps.map (·.spec.name)).Nodup)
    (h : checkArtifacts var ver ec steps arts = .ok (arts', r))
    (n : Nat) (a a' : Artifact) (ha : arts[n]? = some a) (ha' : arts'[n]? = some a')
    (hfresh : a.info = TestInfo.empty) (s : Step) (hs : s ∈ steps) :
    getTestResult a'.info s.spec.name = expectedEntry var ver ec s (statics arts) n a := by
  obtain ⟨hres, _, _⟩ := fresh_entries var ver ec steps arts arts' r hnd h n a a' ha ha' hfresh
  have hnames : (a'.info.results.map (·.name)).Nodup := by
    rw [hres]
    exact (names_filterMap_expected var ver ec steps (statics arts) n a).nodup hnd
  cases he : expectedEntry var ver ec s (statics arts) n a with
  | some e =>
    have hmem : e ∈ a'.info.results := by
      rw [hres, List.mem_filterMap]; exact ⟨s, hs, he⟩
    have := find_of_mem_nodup hnames hmem
    rw [expectedEntry_name he] at this
    exact this
  | none =>
    rw [getTestResult_none_iff, hres]
    intro hmem
    obtain ⟨e, he', hname⟩ := List.mem_map.1 hmem
    obtain ⟨s', hs', hes'⟩ := List.mem_filterMap.1 he'
    have : s' = s := eq_of_nodup_map (fun (x : Step) => x.spec.name) hnd hs' hs
      (by rw [← expectedEntry_name hes', hname])
    subst this
    rw [he] at hes'; cases hes'

/-- Severity rule of every check but CheckIssuerKey: the check's documented severity, except
CheckLowHammingWeight's (`unknownIfUnfactored`) SEVERITY_UNKNOWN when the key is flagged but
not factored. -/
theorem severity_rule (c : CheckSpec) (v : Verdict) :
    (entryFor c v).name = c.name ∧ (entryFor c v).result = v.positive ∧
    (entryFor c v).severity =
      if c.unknownIfUnfactored = true ∧ v.positive = true ∧ v.factors = none
      then Consts.severityUnknown else c.severity := by
  refine ⟨rfl, rfl, ?_⟩
  simp only [entryFor, sevFor, Bool.and_eq_true, Option.isNone_iff_eq_none, and_assoc]

/-- CheckIssuerKey, one call on ANY batch (pre-annotated or not), signature at position `n`:
there is a checked ECKey `key'` = (fresh ECKey `key0` of `pks_pb` with the signature's dictionary
key, after the inner CheckAllEC) such that the signature's entry named after the check is
positive iff it was positive before or the EC checks flag that key, and carries
- when flagged: the highest severity among the key's failed EC checks (max with the old one),
- when not flagged: the check's own severity (max with the old one). -/
theorem issuer_entry (var : Variant) (ver : String) (ec : List CheckSpec) (c : CheckSpec)
    (inner : Nat → Nat → Verdict) (arts arts' : List Artifact) (w : Bool)
    (hec : (ec.map (·.name)).Nodup)
    (h : checkIssuerKey var ver ec c inner arts = .ok (arts', w))
    (n : Nat) (a a' : Artifact) (ha : arts[n]? = some a) (ha' : arts'[n]? = some a') :
    ∃ (k : Nat) (key0 key' : Artifact) (en : Entry),
      (issuerKeys var arts)[k]? = some key0 ∧ key0.info = TestInfo.empty ∧
      keyId var key0 = keyId var a ∧ (∃ b ∈ arts, key0 = freshKey b) ∧
      key'.info.results = innerEntries ec inner k key0 ∧
      (key'.info.weak = true ↔ ecFlags ec inner k key0) ∧
      getTestResult a'.info c.name = some (mergeEntry (getTestResult a.info c.name) en) ∧
      en.name = c.name ∧ (en.result = true ↔ ecFlags ec inner k key0) ∧
      (ecFlags ec inner k key0 →
        (∃ e ∈ innerEntries ec inner k key0, e.result = true ∧ e.severity = en.severity) ∧
        ∀ e ∈ innerEntries ec inner k key0, e.result = true → e.severity ≤ en.severity) ∧
      (¬ ecFlags ec inner k key0 → en.severity = c.severity) := by
  obtain ⟨k, key0, key', en, hk, hid, ⟨b, hb, hkb⟩, hact, hen, hinfo, _⟩ :=
    checkIssuerKey_entry h n a a' ha ha'
  have hfresh : key0.info = TestInfo.empty := by rw [hkb]; rfl
  obtain ⟨hweak, hres, _⟩ := innerKey_state hact hfresh
  obtain ⟨e1, e2, e3, e4⟩ := issuerEntry_spec hen
  refine ⟨k, key0, key', en, hk, hfresh, hid, ⟨b, hb, hkb⟩, hres hec, hweak, ?_, e1, ?_, ?_, ?_⟩
  · rw [hinfo, getTestResult_setTestResult, e1, if_pos rfl]
  · rw [e2]; exact hweak
  · intro hf
    have := getHighestSeverity_some key'.info en.severity (e4 (hweak.2 hf))
    rw [hres hec] at this
    exact this
  · intro hf
    apply e3
    cases hw : key'.info.weak with
    | false => rfl
    | true => exact (hf (hweak.1 hw)).elim

/-- the full reading of the last clause of the property: the ECKey whose verdict a signature
receives is the ECKey made from THAT signature's `issuer_key_info` (same curve id, same
coordinates), and the signature's entry is positive iff (it already was or) the EC checks flag
that key. -/
def IssuerVerdictFaithful (var : Variant) : Prop :=
  ∀ (ver : String) (ec : List CheckSpec) (c : CheckSpec) (inner : Nat → Nat → Verdict)
    (arts arts' : List Artifact) (w : Bool),
    checkIssuerKey var ver ec c inner arts = .ok (arts', w) →
    ∀ (n : Nat) (a a' : Artifact), arts[n]? = some a → arts'[n]? = some a' →
      ∃ k, (issuerKeys var arts)[k]? = some (freshKey a) ∧
        ∃ e, getTestResult a'.info c.name = some e ∧
          (e.result = true ↔
            (∃ e0, getTestResult a.info c.name = some e0 ∧ e0.result = true) ∨
            ecFlags ec inner k (freshKey a))

/-- `issuer_verdict`: with issuer keys de-duplicated by (curve_type, x, y) — the repaired
CheckIssuerKey, fixes/issuer-key-dedup-curve.diff — a signature's issuer-key verdict is the
verdict of the EC checks on that key. -/
theorem issuer_verdict : IssuerVerdictFaithful .repaired := by
  intro ver ec c inner arts arts' w h n a a' ha ha'
  obtain ⟨k, key0, key', en, hk, hid, ⟨b, hb, hkb⟩, hact, hen, hinfo, _⟩ :=
    checkIssuerKey_entry h n a a' ha ha'
  have hkey : key0 = freshKey a := by
    rw [hkb]
    have : keyId .repaired b = keyId .repaired a := by
      rw [← keyId_freshKey .repaired b, ← hkb]; exact hid
    simp only [keyId, Prod.mk.injEq] at this
    simp only [freshKey, Artifact.mk.injEq, true_and]
    exact ⟨this.1, Prod.ext this.2.1 this.2.2⟩
  subst hkey
  obtain ⟨hweak, _, _⟩ := innerKey_state hact rfl
  obtain ⟨e1, e2, _, _⟩ := issuerEntry_spec hen
  refine ⟨k, hk, mergeEntry (getTestResult a.info c.name) en, ?_, ?_⟩
  · rw [hinfo, getTestResult_setTestResult, e1, if_pos rfl]
  · rw [← hweak, ← e2]
    cases hg : getTestResult a.info c.name with
    | none => simp [mergeEntry]
    | some e0 => simp [mergeEntry]

/-- the pinned CheckIssuerKey (de-duplication by (x, y) only) has the same property for batches
in which issuer keys with equal coordinates have equal curve ids. -/
theorem issuer_verdict_pinned_partial (ver : String) (ec : List CheckSpec) (c : CheckSpec)
    (inner : Nat → Nat → Verdict) (arts arts' : List Artifact) (w : Bool)
    (hcurves : ∀ a ∈ arts, ∀ b ∈ arts, a.point = b.point → a.curve = b.curve)
    (h : checkIssuerKey .pinned ver ec c inner arts = .ok (arts', w))
    (n : Nat) (a a' : Artifact) (ha : arts[n]? = some a) (ha' : arts'[n]? = some a') :
    ∃ k, (issuerKeys .pinned arts)[k]? = some (freshKey a) ∧
      ∃ e, getTestResult a'.info c.name = some e ∧
        (e.result = true ↔
          (∃ e0, getTestResult a.info c.name = some e0 ∧ e0.result = true) ∨
          ecFlags ec inner k (freshKey a)) := by
  obtain ⟨k, key0, key', en, hk, hid, ⟨b, hb, hkb⟩, hact, hen, hinfo, _⟩ :=
    checkIssuerKey_entry h n a a' ha ha'
  have hkey : key0 = freshKey a := by
    rw [hkb]
    have : keyId .pinned b = keyId .pinned a := by
      rw [← keyId_freshKey .pinned b, ← hkb]; exact hid
    simp only [keyId, Prod.mk.injEq, true_and] at this
    have hp : b.point = a.point := Prod.ext this.1 this.2
    simp only [freshKey, Artifact.mk.injEq, true_and]
    exact ⟨hcurves b hb a (List.mem_of_getElem? ha) hp, hp⟩
  subst hkey
  obtain ⟨hweak, _, _⟩ := innerKey_state hact rfl
  obtain ⟨e1, e2, _, _⟩ := issuerEntry_spec hen
  refine ⟨k, hk, mergeEntry (getTestResult a.info c.name) en, ?_, ?_⟩
  · rw [hinfo, getTestResult_setTestResult, e1, if_pos rfl]
  · rw [← hweak, ← e2]
    cases hg : getTestResult a.info c.name with
    | none => simp [mergeEntry]
    | some e0 => simp [mergeEntry]

/-- two fresh signatures whose issuer keys have the same coordinates (1, 1) but curve ids 2
(secp256r1) and 6 (secp256k1). -/
def sigA : Artifact := ⟨TestInfo.empty, 2, (1, 1)⟩
def sigB : Artifact := ⟨TestInfo.empty, 6, (1, 1)⟩

/-- KNOWN FINDING (pinned tree): de-duplicating by coordinates only, the ECKey of signature B is
never checked — B receives the verdict of A's key. -/
theorem issuer_verdict_pinned_fails : ¬ IssuerVerdictFaithful .pinned := by
  intro hfaith
  have hrun : checkIssuerKey .pinned "v" [] ⟨"CheckIssuerKey", 0, false, false, true⟩
      (fun _ _ => ⟨false, none, none⟩) [sigA, sigB] =
      .ok ([⟨⟨false, [⟨"CheckIssuerKey", false, 0⟩], [], "v"⟩, 2, (1, 1)⟩,
            ⟨⟨false, [⟨"CheckIssuerKey", false, 0⟩], [], "v"⟩, 6, (1, 1)⟩], false) := by
    decide +kernel
  obtain ⟨k, hk, _⟩ := hfaith _ _ _ _ _ _ _ hrun 1 sigB _ rfl rfl
  have hkeys : issuerKeys .pinned [sigA, sigB] = [freshKey sigA] := by decide +kernel
  rw [hkeys] at hk
  cases k with
  | zero => simp [freshKey, sigA, sigB] at hk
  | succ m => simp at hk

/-! ### the three entry points with the regenerated registries -/

/-- names in each regenerated registry are pairwise different; the "all" registries are the
single checks followed by the aggregate checks. -/
theorem registry_names_nodup :
    (rsaAll.map (·.name)).Nodup ∧ (ecAll.map (·.name)).Nodup ∧ (ecdsaAll.map (·.name)).Nodup ∧
    Consts.rsaAllChecks = Consts.rsaSingleChecks ++ Consts.rsaAggregateChecks ∧
    Consts.ecAllChecks = Consts.ecSingleChecks ++ Consts.ecAggregateChecks ∧
    Consts.ecdsaAllChecks = Consts.ecdsaSigChecks :=
  ⟨by decide +kernel, by decide +kernel, by decide +kernel, by decide +kernel, by decide +kernel,
    by decide +kernel⟩

/-- CheckAllRSA on a batch of FRESH keys: every key carries exactly one entry per active RSA
check, in registry order; weak flag, return value and version as the property says. -/
theorem checkAllRSA_fresh (var : Variant) (O : Nat → Nat → Verdict)
    (I : Nat → Nat → Nat → Verdict) (arts arts' : List Artifact) (r : Bool)
    (hfresh : ∀ a ∈ arts, a.info = TestInfo.empty)
    (h : checkAllRSA var O I arts = .ok (arts', r)) :
    (∀ (n : Nat) (a' : Artifact), arts'[n]? = some a' →
      a'.info.results.map (·.name) = rsaAll.map (·.name) ∧
      (a'.info.weak = true ↔ ∃ e ∈ a'.info.results, e.result = true) ∧
      a'.info.version = Consts.libVersion) ∧
    (r = true ↔ ∃ a' ∈ arts', a'.info.weak = true) := by
  unfold checkAllRSA at h
  have hspecs := mkSteps_names rsaAll O I
  have hnd : ((mkSteps rsaAll O I).map (·.spec.name)).Nodup := by
    have : (mkSteps rsaAll O I).map (·.spec.name) = rsaAll.map (·.name) := by
      rw [← hspecs, List.map_map]; rfl
    rw [this]; exact registry_names_nodup.1
  refine ⟨?_, fresh_return_iff var _ _ _ arts arts' r
    (fun a ha => by rw [hfresh a ha]; rfl) h⟩
  intro n a' ha'
  have hlen := (checkArtifacts_monotone var _ _ _ arts arts' r h).1
  have hn : n < arts.length := by
    rw [← hlen]; exact (List.getElem?_eq_some_iff.1 ha').1
  have ha : arts[n]? = some arts[n] := List.getElem?_eq_getElem hn
  have hf := hfresh _ (List.mem_of_getElem? ha)
  obtain ⟨h1, h2, h3⟩ := fresh_entries var _ _ _ arts arts' r hnd h n _ a' ha ha' hf
  have hnames := fresh_one_entry_per_applicable_check var _ _ _ arts arts' r hnd h n _ a' ha ha' hf
  have hall : (mkSteps rsaAll O I).filter
      (fun s => s.spec.issuer || applicable s.spec arts[n]) = mkSteps rsaAll O I := by
    rw [List.filter_eq_self]
    intro s hs
    have : s.spec ∈ rsaAll := by rw [← hspecs]; exact List.mem_map.2 ⟨s, hs, rfl⟩
    have hnc : ∀ c ∈ rsaAll, c.needsCurve = false := by decide +kernel
    simp [applicable, hnc _ this]
  rw [hall] at hnames
  have hnames' : a'.info.results.map (·.name) = rsaAll.map (·.name) := by
    rw [hnames, ← hspecs, List.map_map]; rfl
  refine ⟨hnames', h2, ?_⟩
  rw [h3]
  have : a'.info.results ≠ [] := by
    intro hnil
    rw [hnil] at hnames'
    exact absurd hnames'.symm (by decide +kernel)
  cases hr : a'.info.results with
  | nil => exact (this hr).elim
  | cons x xs => rfl

/-- CheckAllEC on FRESH keys: one entry per active EC check that applies to the key
(CheckValidECKey always; the other checks iff the curve is in CURVE_FACTORY), in registry
order. -/
theorem checkAllEC_fresh (var : Variant) (O : Nat → Nat → Verdict)
    (I : Nat → Nat → Nat → Verdict) (arts arts' : List Artifact) (r : Bool)
    (hfresh : ∀ a ∈ arts, a.info = TestInfo.empty)
    (h : checkAllEC var O I arts = .ok (arts', r)) :
    (∀ (n : Nat) (a a' : Artifact), arts[n]? = some a → arts'[n]? = some a' →
      a'.info.results.map (·.name) =
        (ecAll.filter (fun c => c.issuer || applicable c a)).map (·.name) ∧
      (a'.info.weak = true ↔ ∃ e ∈ a'.info.results, e.result = true) ∧
      a'.info.version = Consts.libVersion) ∧
    (r = true ↔ ∃ a' ∈ arts', a'.info.weak = true) := by
  unfold checkAllEC at h
  have hspecs := mkSteps_names ecAll O I
  have hnd : ((mkSteps ecAll O I).map (·.spec.name)).Nodup := by
    have : (mkSteps ecAll O I).map (·.spec.name) = ecAll.map (·.name) := by
      rw [← hspecs, List.map_map]; rfl
    rw [this]; exact registry_names_nodup.2.1
  refine ⟨?_, fresh_return_iff var _ _ _ arts arts' r
    (fun a ha => by rw [hfresh a ha]; rfl) h⟩
  intro n a a' ha ha'
  have hf := hfresh _ (List.mem_of_getElem? ha)
  obtain ⟨h1, h2, h3⟩ := fresh_entries var _ _ _ arts arts' r hnd h n a a' ha ha' hf
  have hnames := fresh_one_entry_per_applicable_check var _ _ _ arts arts' r hnd h n a a' ha ha' hf
  have hnames' : a'.info.results.map (·.name) =
      (ecAll.filter (fun c => c.issuer || applicable c a)).map (·.name) := by
    rw [hnames]
    conv => rhs; rw [← hspecs]
    rw [List.filter_map, List.map_map]; rfl
  refine ⟨hnames', h2, ?_⟩
  rw [h3]
  have : a'.info.results ≠ [] := by
    intro hnil
    rw [hnil] at hnames'
    have hany : ∃ c ∈ ecAll, c.needsCurve = false := by decide +kernel
    obtain ⟨c, hc, hncv⟩ := hany
    have : c.name ∈ (ecAll.filter (fun c => c.issuer || applicable c a)).map (·.name) :=
      List.mem_map.2 ⟨c, List.mem_filter.2 ⟨hc, by simp [applicable, hncv]⟩, rfl⟩
    rw [← hnames'] at this
    cases this
  cases hr : a'.info.results with
  | nil => exact (this hr).elim
  | cons x xs => rfl

/-- CheckAllECDSASigs on FRESH signatures: one entry per active signature check that applies
(CheckIssuerKey always; the nonce checks iff the issuer curve is in CURVE_FACTORY). -/
theorem checkAllECDSASigs_fresh (var : Variant) (O : Nat → Nat → Verdict)
    (I : Nat → Nat → Nat → Verdict) (arts arts' : List Artifact) (r : Bool)
    (hfresh : ∀ a ∈ arts, a.info = TestInfo.empty)
    (h : checkAllECDSASigs var O I arts = .ok (arts', r)) :
    (∀ (n : Nat) (a a' : Artifact), arts[n]? = some a → arts'[n]? = some a' →
      a'.info.results.map (·.name) =
        (ecdsaAll.filter (fun c => c.issuer || applicable c a)).map (·.name) ∧
      (a'.info.weak = true ↔ ∃ e ∈ a'.info.results, e.result = true) ∧
      a'.info.version = Consts.libVersion) ∧
    (r = true ↔ ∃ a' ∈ arts', a'.info.weak = true) := by
  unfold checkAllECDSASigs at h
  have hspecs := mkSteps_names ecdsaAll O I
  have hnd : ((mkSteps ecdsaAll O I).map (·.spec.name)).Nodup := by
    have : (mkSteps ecdsaAll O I).map (·.spec.name) = ecdsaAll.map (·.name) := by
      rw [← hspecs, List.map_map]; rfl
    rw [this]; exact registry_names_nodup.2.2.1
  refine ⟨?_, fresh_return_iff var _ _ _ arts arts' r
    (fun a ha => by rw [hfresh a ha]; rfl) h⟩
  intro n a a' ha ha'
  have hf := hfresh _ (List.mem_of_getElem? ha)
  obtain ⟨h1, h2, h3⟩ := fresh_entries var _ _ _ arts arts' r hnd h n a a' ha ha' hf
  have hnames := fresh_one_entry_per_applicable_check var _ _ _ arts arts' r hnd h n a a' ha ha' hf
  have hnames' : a'.info.results.map (·.name) =
      (ecdsaAll.filter (fun c => c.issuer || applicable c a)).map (·.name) := by
    rw [hnames]
    conv => rhs; rw [← hspecs]
    rw [List.filter_map, List.map_map]; rfl
  refine ⟨hnames', h2, ?_⟩
  rw [h3]
  have : a'.info.results ≠ [] := by
    intro hnil
    rw [hnil] at hnames'
    have hiss : ∃ c ∈ ecdsaAll, c.issuer = true := by decide +kernel
    obtain ⟨c, hc, hci⟩ := hiss
    have : c.name ∈ (ecdsaAll.filter (fun c => c.issuer || applicable c a)).map (·.name) :=
      List.mem_map.2 ⟨c, List.mem_filter.2 ⟨hc, by simp [hci]⟩, rfl⟩
    rw [← hnames'] at this
    cases this
  cases hr : a'.info.results with
  | nil => exact (this hr).elim
  | cons x xs => rfl

/-! ## Non-vacuity: concrete runs of the model -/

/-- a history on a hand-edited TestInfo: the duplicate name stays duplicated (not tripled), the
first one is updated, factors are united. -/
example :
    runOps "1.1.1" ⟨false, [⟨"A", false, 1⟩, ⟨"A", true, 0⟩], [("N", .factors [3])], ""⟩
      [.setTestResult ⟨"A", true, 4⟩, .attachFactors "N" [7, 3], .setTestResult ⟨"B", false, 2⟩] =
    ⟨true, [⟨"A", true, 4⟩, ⟨"A", true, 0⟩, ⟨"B", false, 2⟩], [("N", .factors [3, 7])],
      "1.1.1"⟩ := by decide +kernel

/-- AttachFactors on an unparsable stored value raises and changes nothing. -/
example : attachFactors ⟨false, [], [("N", .raw "garbage")], ""⟩ "N" [5] = .error .valueError := by
  decide +kernel

/-- CheckAllEC on a fresh key on secp256r1 (curve id 2, flagged by the 3rd check, discrete log
attached) and a fresh key with unknown curve id 0 (flagged by CheckValidECKey only, and carrying
ONE entry): the hypotheses of `checkAllEC_fresh` are satisfiable and the run returns True. -/
example :
    (checkAllEC .repaired
      (fun j i => if j = 2 ∧ i = 0 then ⟨true, none, some ("DISCRETE_LOG", .raw "fac2")⟩
                  else if j = 0 ∧ i = 1 then ⟨true, none, none⟩ else ⟨false, none, none⟩)
      (fun _ _ _ => ⟨false, none, none⟩)
      [⟨TestInfo.empty, 2, (5, 6)⟩, ⟨TestInfo.empty, 0, (5, 6)⟩]).map
      (fun p => (p.1.map (fun a => (a.info.weak, a.info.results.map (·.name), a.info.version)), p.2)) =
    .ok ([(true, ["CheckValidECKey", "CheckWeakCurve", "CheckWeakECPrivateKey",
                  "CheckECKeySmallDifference"], "1.1.1"),
          (true, ["CheckValidECKey"], "1.1.1")], true) := by decide +kernel

/-- the two variants of CheckIssuerKey differ on [sigA, sigB] when the EC checks flag the second
distinct key (B's own key, which only the repaired variant checks): pinned leaves B unflagged. -/
example :
    ((checkIssuerKey .pinned "v" ecAll ⟨"CheckIssuerKey", 0, false, false, true⟩
      (fun j k => if j = 0 ∧ k = 1 then ⟨true, none, none⟩ else ⟨false, none, none⟩)
      [sigA, sigB]).map (fun p => (p.1.map (·.info.weak), p.2)) = .ok ([false, false], false)) ∧
    ((checkIssuerKey .repaired "v" ecAll ⟨"CheckIssuerKey", 0, false, false, true⟩
      (fun j k => if j = 0 ∧ k = 1 then ⟨true, none, none⟩ else ⟨false, none, none⟩)
      [sigA, sigB]).map (fun p => (p.1.map (·.info.weak), p.2)) = .ok ([false, true], true)) := by
  decide +kernel

/-- CheckIssuerKey copies the HIGHEST severity among the failed EC checks (2 and 4 here → 4)
to both signatures of the issuer; CheckLowHammingWeight's override gives severity 0. -/
example :
    ((checkIssuerKey .repaired "v" ecAll ⟨"CheckIssuerKey", 0, false, false, true⟩
      (fun j _ => if j = 1 ∨ j = 2 then ⟨true, none, none⟩ else ⟨false, none, none⟩)
      [⟨TestInfo.empty, 1, (8, 9)⟩, ⟨TestInfo.empty, 1, (8, 9)⟩]).map
      (fun p => p.1.map (·.info.results)) =
      .ok [[⟨"CheckIssuerKey", true, 4⟩], [⟨"CheckIssuerKey", true, 4⟩]]) ∧
    entryFor ⟨"CheckLowHammingWeight", 4, false, true, false⟩ ⟨true, none, none⟩ =
      ⟨"CheckLowHammingWeight", true, 0⟩ := by decide +kernel

end Paranoid.C16
