/-
Props/EcAll.lean — the entry points `paranoid.CheckAllEC` and `paranoid.CheckAllECDSASigs` END TO
END: property theorems about the composed models of Model/EcAll.lean, in which what every check
decides is computed by the check models of Model/Bsgs.lean / Model/EcdsaChecks.lean and only the
float values `int(math.sqrt(·))`, the lattice-solver answers, the `set` iteration orders and the
state of the process-wide curve objects are inputs.  Every theorem is a composition of theorems of
C02S, C06, C10, C16, C18 through the glue lemmas of Proofs/EcAll.lean; nothing about a check is
re-proved here.

No primality hypothesis: `FieldPrimes` (the field moduli of the nine curves of `CURVE_FACTORY` are
prime) is the theorem `fieldPrimes` (Proofs/EcAllPrimes.lean, from the kernel-checked Pratt
certificates of Props/C11Primes.lean).  No hypothesis on `EcParams.bound` either: totality holds for
every value of the literal `2**32` (Proofs/EcAllBound.lean), in particular for the `2**16` the quick
tier of harness/corr/ecall.py runs the real code with.  "fresh" = `test_info` is a newly constructed
`TestInfo()`.
-/
import ParanoidModel.Proofs.EcAll
import ParanoidModel.Props.C06
import ParanoidModel.Proofs.EcAllFast
import ParanoidModel.Proofs.EcAllBound
namespace Paranoid.EcAll
open Paranoid Paranoid.Ec Paranoid.Bsgs WeierstrassCurve

/-! ## CheckAllEC -/

/-- ★ totality (C18 end to end).  On a well-formed call (`ECWF`: reachable `_table` states, every
key with a known curve id is a reduced point of its curve, float oracles `≥ 1` where a table is
built) with ANY value `p.bound` of the literal `2**32` and any `max_diff`, `CheckAllEC` returns: none
of the four registered checks raises, the check models and the bookkeeping layer agree about which
keys get an entry, and the bookkeeping layer does not raise — whatever `test_info` the keys already
carry.  The states left behind are again reachable, so the next call on the same curve objects is
covered too.  (The bound enters only through the float `int(math.sqrt(bound * len(all_points)))`,
which `ECWF.wk` asks to be `≥ 1`: with the real `math.sqrt`, every bound `≥ 1`.  No primality
hypothesis: `fieldPrimes`.) -/
theorem checkAllECFull_total (p : EcParams)
    (o : EcOracle) (sts : List EcState) (arts : List Artifact) (hwf : ECWF p o sts arts) :
    ∃ arts' r sts', checkAllECFull p o sts arts = .ok ((arts', r), sts') ∧
      StatesOK ecFactory sts' := by
  obtain ⟨rows, sts', hrows, hst'⟩ := ecRowsG_totalB p o sts arts hwf
  obtain ⟨⟨arts', r⟩, hbk⟩ := checkArtifacts_ok .repaired Consts.libVersion ecAll
    (mkSteps ecAll (verdictAt rows) noInner)
    (fun s hs => by
      obtain ⟨j, c, _, rfl⟩ := mem_mkSteps hs
      exact ⟨fun i => verdictAt_factors _ j i, fun _ _ => rfl⟩) arts
  exact ⟨arts', r, sts', checkAllECFull_of hrows hbk, hst'⟩

/-- ★ `checkAllEC_dlogs_sound` (C02 end to end).  After `CheckAllEC` on FRESH keys — any batch:
other keys may be off their curve, unreduced, duplicates, on unknown curves; any bound, `max_diff`,
`_table` states and float-oracle values — for the key at position `n` on a known curve `c`:

* a `DISCRETE_LOG` attached to it is `format(v, "x")` for an integer `v` which, when the key is on
  the curve and `n • P = ∞`, satisfies `v • G = P`.  (`n • P = ∞` is a HYPOTHESIS: for the nine
  cofactor-1 curves it is what `IsValidPublicKey` gives only together with `#E(F_p) = n`, which is
  not proved.  For keys that have a private key, `P = d • G`, it is not needed:
  `checkAllEC_dlogs_sound_priv`, Props/C16EcAllCert.lean.);
* a `DISCRETE_LOG_DIFF` attached to it is the string `"key - (qx, qy) = d * G"` of a relation which,
  when all keys of the batch with the same curve id are on the curve, names ANOTHER key `Q` of the
  batch on the same curve with `P ≠ Q` and `P - Q = d • G`. -/
theorem checkAllEC_dlogs_sound (p : EcParams) (o : EcOracle) (sts : List EcState)
    (arts arts' : List Artifact) (r : Bool) (sts' : List EcState)
    (hfresh : ∀ a ∈ arts, a.info = TestInfo.empty)
    (h : checkAllECFull p o sts arts = .ok ((arts', r), sts'))
    (n : Nat) (a a' : Artifact) (ha : arts[n]? = some a) (ha' : arts'[n]? = some a')
    (c : Curve) (hc : factoryGet ecFactory a.curve = some c) :
    haveI : Fact (Nat.Prime c.p) := ⟨prime_of_get hc⟩
    (∀ x, getAttachedInfo a'.info infoNameDiscreteLog = some x →
      ∃ v : Int, x = .raw (Proto.hexInt v) ∧
        (onCurve c (keyOf a).pt = true → c.n • toPoint c (keyOf a).pt = 0 →
          v • Gp c = toPoint c (keyOf a).pt)) ∧
    (∀ x, getAttachedInfo a'.info infoNameDiscreteLogDiff = some x →
      ∃ rel : Rel, x = .raw (relString rel) ∧
        ((∀ b ∈ arts, b.curve = a.curve → onCurve c (keyOf b).pt = true) →
          ∃ (n' : Nat) (b : Artifact), n' ≠ n ∧ arts[n']? = some b ∧ b.curve = a.curve ∧
            onCurve c (.aff rel.qx rel.qy) = true ∧
            toPoint c (.aff rel.qx rel.qy) = toPoint c (keyOf b).pt ∧
            toPoint c (keyOf a).pt - toPoint c (keyOf b).pt = rel.dl • Gp c ∧
            toPoint c (keyOf a).pt ≠ toPoint c (keyOf b).pt)) := by
  have hpc : Nat.Prime c.p := prime_of_get hc
  haveI : Fact (Nat.Prime c.p) := ⟨hpc⟩
  have hp : FieldPrimes := fieldPrimes
  obtain ⟨rows, hrows, hbk⟩ := checkAllECFull_ok h
  obtain ⟨row1, row3, row4, sts3, rfl, hv, hw, hd, _⟩ := ecRowsG_ok hrows
  have hkey := keys_getElem? ha
  -- which registered check attached the value
  have origin : ∀ k x, getAttachedInfo a'.info k = some x →
      ∃ (j : Nat) (kv : KV), ([row1, checkWeakCurve ecFactory (arts.map keyOf), row3, row4][j]?).bind (·[n]?) =
        some (some kv) ∧ kv.info.map infoOf = some (k, x) := by
    intro k x hx
    obtain ⟨s, hs, _, _, _, hinfo⟩ := fresh_attached hbk
      (fun s hs i => by obtain ⟨j, c, _, rfl⟩ := mem_mkSteps hs; exact verdictAt_factors _ j i)
      ha ha' (hfresh a (List.mem_of_getElem? ha)) k x hx
    obtain ⟨j, cj, _, rfl⟩ := mem_mkSteps hs
    simp only [verdictAt] at hinfo
    split at hinfo
    · rename_i row hrow
      split at hinfo
      · rename_i kv hkv
        exact ⟨j, kv, by rw [hrow]; exact hkv, hinfo⟩
      · cases hinfo
    · cases hinfo
  constructor
  · intro x hx
    obtain ⟨j, kv, hj, hinfo⟩ := origin _ x hx
    -- only CheckWeakECPrivateKey attaches a `.dlog`
    have : j = 2 := by
      rcases j with _ | _ | _ | _ | j
      · simp only [List.getElem?_cons_zero, Option.bind_some] at hj
        rw [checkValidECKey_info hv n kv hj] at hinfo; cases hinfo
      · simp only [List.getElem?_cons_succ, List.getElem?_cons_zero, Option.bind_some] at hj
        rw [checkWeakCurve_info n kv hj] at hinfo; cases hinfo
      · rfl
      · simp only [List.getElem?_cons_succ, List.getElem?_cons_zero, Option.bind_some] at hj
        rcases (row4_sound hp hd hkey hj hc).1 with rfl | ⟨rel, rfl⟩
        · cases hinfo
        · simp [infoOf, infoNameDiscreteLog, infoNameDiscreteLogDiff] at hinfo
      · simp at hj
    subst this
    simp only [List.getElem?_cons_succ, List.getElem?_cons_zero, Option.bind_some] at hj
    obtain ⟨hcase, hsound⟩ := row3_sound hp hw hkey hj hc
    rcases hcase with rfl | ⟨v, rfl⟩
    · cases hinfo
    · simp only [Option.map_some, infoOf, Option.some.injEq, Prod.mk.injEq, true_and] at hinfo
      exact ⟨v, hinfo.symm, fun hon hN => hsound v rfl hpc hon hN⟩
  · intro x hx
    obtain ⟨j, kv, hj, hinfo⟩ := origin _ x hx
    have : j = 3 := by
      rcases j with _ | _ | _ | _ | j
      · simp only [List.getElem?_cons_zero, Option.bind_some] at hj
        rw [checkValidECKey_info hv n kv hj] at hinfo; cases hinfo
      · simp only [List.getElem?_cons_succ, List.getElem?_cons_zero, Option.bind_some] at hj
        rw [checkWeakCurve_info n kv hj] at hinfo; cases hinfo
      · simp only [List.getElem?_cons_succ, List.getElem?_cons_zero, Option.bind_some] at hj
        rcases (row3_sound hp hw hkey hj hc).1 with rfl | ⟨v, rfl⟩
        · cases hinfo
        · simp [infoOf, infoNameDiscreteLog, infoNameDiscreteLogDiff] at hinfo
      · rfl
      · simp at hj
    subst this
    simp only [List.getElem?_cons_succ, List.getElem?_cons_zero, Option.bind_some] at hj
    obtain ⟨hcase, hsound⟩ := row4_sound hp hd hkey hj hc
    rcases hcase with rfl | ⟨rel, rfl⟩
    · cases hinfo
    · simp only [Option.map_some, infoOf, Option.some.injEq, Prod.mk.injEq, true_and] at hinfo
      refine ⟨rel, hinfo.symm, fun hon => ?_⟩
      obtain ⟨n', k', hne, hk', hid, q1, q2, q3, q4⟩ := hsound rel rfl hpc (by
        intro n' k' hk' hid
        rw [List.getElem?_map] at hk'
        cases hb : arts[n']? with
        | none => rw [hb] at hk'; cases hk'
        | some b =>
          rw [hb] at hk'
          simp only [Option.map_some, Option.some.injEq] at hk'
          subst hk'
          exact hon b (List.mem_of_getElem? hb) hid)
      rw [List.getElem?_map] at hk'
      cases hb : arts[n']? with
      | none => rw [hb] at hk'; cases hk'
      | some b =>
        rw [hb] at hk'
        simp only [Option.map_some, Option.some.injEq] at hk'
        subst hk'
        exact ⟨n', b, hne, hb, hid, q1, q2, q3, q4⟩

/-- ★ `entries` for `CheckAllEC` (C16 end to end).  On FRESH keys (any batch, any oracle values):
the batch keeps its length and key material; every key carries EXACTLY one entry per registered
check that applies to it, in registry order — all four when its curve id is in `CURVE_FACTORY`,
CheckValidECKey alone otherwise (unknown and binary-field ids); the entry of check `j` is
`(check_name, verdict of the check model on that key, the check's documented severity)`; the weak
flag is set iff some entry is positive, the library version is recorded, and the call returns True
iff some key is weak afterwards. -/
theorem checkAllEC_entries (p : EcParams) (o : EcOracle) (sts : List EcState)
    (arts arts' : List Artifact) (r : Bool) (sts' : List EcState)
    (hfresh : ∀ a ∈ arts, a.info = TestInfo.empty)
    (h : checkAllECFull p o sts arts = .ok ((arts', r), sts')) :
    arts'.length = arts.length ∧ (r = true ↔ ∃ a' ∈ arts', a'.info.weak = true) ∧
    ∃ rows, ecRowsG listImpl p o sts arts = .ok (rows, sts') ∧
      ∀ (n : Nat) (a a' : Artifact), arts[n]? = some a → arts'[n]? = some a' →
        a'.curve = a.curve ∧ a'.point = a.point ∧
        a'.info.results.map (·.name) =
          (if (factoryGet ecFactory a.curve).isSome then ecAll.map (·.name)
           else ["CheckValidECKey"]) ∧
        (∀ (j : Nat) (c : CheckSpec), ecAll[j]? = some c →
          getTestResult a'.info c.name =
            if applicable c a then some ⟨c.name, (verdictAt rows j n).positive, c.severity⟩
            else none) ∧
        (a'.info.weak = true ↔ ∃ e ∈ a'.info.results, e.result = true) ∧
        a'.info.version = Consts.libVersion := by
  obtain ⟨rows, hrows, hbk⟩ := checkAllECFull_ok h
  obtain ⟨hall, hret⟩ := C16.checkAllEC_fresh .repaired _ _ _ _ _ hfresh hbk
  have hmono := C16.checkArtifacts_monotone .repaired _ _ _ _ _ _ hbk
  have hndS := mkSteps_nodup ecAll (verdictAt rows) noInner C16.registry_names_nodup.2.1
  refine ⟨hmono.1, hret, rows, hrows, ?_⟩
  intro n a a' ha ha'
  obtain ⟨hnames, hweak, hver⟩ := hall n a a' ha ha'
  have hlater := hmono.2 n a a' ha ha'
  have hfr := hfresh a (List.mem_of_getElem? ha)
  refine ⟨hlater.key.1, hlater.key.2, ?_, ?_, hweak, hver⟩
  · rw [hnames, ecAll_eq]
    obtain ⟨q1, q2, q3, q4⟩ := applicable_ec a
    simp only [List.filter_cons, Bool.false_or, q1, q2, q3, q4, List.filter_nil]
    cases (factoryGet ecFactory a.curve).isSome <;> simp
  · intro j c hj
    have hs := mkSteps_mem (O := verdictAt rows) (I := noInner) hj
    rw [C16.fresh_entry_of_check .repaired _ _ _ _ _ _ hndS hbk n a a' ha ha' hfr _ hs,
      expectedEntry_generic _ _ _ _ _ _ _ (ecAll_noIssuer c (List.mem_of_getElem? hj))]
    have hu : c.unknownIfUnfactored = false := by
      have : ∀ c ∈ ecAll, c.unknownIfUnfactored = false := by rw [ecAll_eq]; decide
      exact this c (List.mem_of_getElem? hj)
    simp [entryFor, sevFor, hu]

/-! ## CheckAllECDSASigs -/

/-- ★ `checkAllECDSA_weak_only_with_key` (C02 end to end, nonce-check half).  `CheckAllECDSASigs` on
FRESH signatures, starting from valid curve objects (`C02S.FactoryOK`: `namedFactory_ok` for a fresh
process, `check_preserves` afterwards), for EVERY batch, every solver answer, every `set` order and
every float-oracle value: the signature at position `n`

* is weak afterwards only if some registered NONCE check `c` recorded a positive entry for it
  because one of the guesses `d` handed to `_IssuerDLogs` for its own curve group is a private key
  of ITS OWN issuer key tuple (`KeyOf`: the raw tuple lies on the curve and is `(d mod n) • G`) — or
  its CheckIssuerKey entry is positive (characterised by `checkAllECDSA_issuer_entry`);
* and whatever `DISCRETE_LOG` it carries afterwards is `format(d, "x")` of such a `d`. -/
theorem checkAllECDSA_weak_only_with_key (p : EcParams) (O : SigOracle) (st : SigState XTable)
    (sarts : List SigArt) (run : SigRun XTable)
    (hF : EcdsaChecks.FactoryOK st.factory) (hnd : (st.factory.map Prod.fst).Nodup)
    (hfresh : ∀ sa ∈ sarts, sa.info = TestInfo.empty)
    (h : checkAllECDSASigsFull p O st sarts = .ok run)
    (n : Nat) (sa : SigArt) (a' : Artifact) (hsa : sarts[n]? = some sa)
    (ha' : run.result.1[n]? = some a') :
    (a'.info.weak = true →
      (∃ (j : Nat) (c : CheckSpec) (d : Int) (obj : EcdsaChecks.CurveObj),
        ecdsaAll[j]? = some c ∧ c.issuer = false ∧
        getTestResult a'.info c.name = some ⟨c.name, true, c.severity⟩ ∧
        d ∈ (O.solver j sa.sig.curve).guessList ∧ (sa.sig.curve, some obj) ∈ st.factory ∧
        EcdsaChecks.KeyOf obj.curve sa.sig.key d) ∨
      (∃ e, getTestResult a'.info "CheckIssuerKey" = some e ∧ e.result = true)) ∧
    (∀ x, getAttachedInfo a'.info EcdsaChecks.infoNameDiscreteLog = some x →
      ∃ (d : Int) (obj : EcdsaChecks.CurveObj), x = .raw (EcdsaChecks.dlogHex d) ∧
        (sa.sig.curve, some obj) ∈ st.factory ∧ EcdsaChecks.KeyOf obj.curve sa.sig.key d) := by
  obtain ⟨hsteps, hbk⟩ := checkAllECDSASigsFull_ok h
  obtain ⟨hart, hsig⟩ := sigArts_getElem? hsa
  have hinv : SigInv st.factory st := ⟨hF, hnd, fun cid obj hm => ⟨obj, hm, rfl⟩⟩
  have hfr : sa.art.info = TestInfo.empty := hfresh sa (List.mem_of_getElem? hsa)
  have hfresh' : ∀ a ∈ sarts.map SigArt.art, a.info = TestInfo.empty := by
    intro a hm
    obtain ⟨sa', hs', rfl⟩ := List.mem_map.mp hm
    exact hfresh sa' hs'
  have hndS := mkSteps_nodup ecdsaAll (sigVerdictAt run.outs) (sigInnerAt run.outs) ecdsaAll_nodup
  -- a positive verdict of a nonce check at position n comes with a key of the signature's issuer
  have key : ∀ (j : Nat) (c : CheckSpec), ecdsaAll[j]? = some c → c.issuer = false →
      (sigVerdictAt run.outs j n).positive = true →
      ∃ (d : Int) (obj : EcdsaChecks.CurveObj),
        sigVerdictAt run.outs j n = EcdsaChecks.posVerdict d ∧
        d ∈ (O.solver j sa.sig.curve).guessList ∧ (sa.sig.curve, some obj) ∈ st.factory ∧
        EcdsaChecks.KeyOf obj.curve sa.sig.key d := by
    intro j c hj hiss hpos
    obtain ⟨out, sti, sti', hout, hi, hstep⟩ := sig_step_at hinv hsteps j c hj
    rcases runSigStepG_cases hstep with ⟨hiss', _⟩ | ⟨_, _, k, res, _, hchk, rfl, _, _⟩
    · rw [hiss] at hiss'; cases hiss'
    · simp only [sigVerdictAt, hout] at hpos ⊢
      cases hv : EcdsaChecks.verdictOf res.writes n with
      | none => rw [hv] at hpos; cases hpos
      | some v =>
        rw [hv] at hpos
        simp only at hpos ⊢
        obtain ⟨s, obj, hs, hobj, hcase⟩ := C02S.weak_only_with_key k (O.solver j) sti.factory _ res
          hi.1 hi.2.1 hchk n v hv
        rw [hsig] at hs; cases hs
        rcases hcase with rfl | ⟨d, rfl, hd, hk⟩
        · cases hpos
        · obtain ⟨obj0, hobj0, hcur⟩ := hi.2.2 _ obj hobj
          exact ⟨d, obj0, rfl, hd, hobj0, by rw [← hcur]; exact hk⟩
  constructor
  · intro hweak
    obtain ⟨hall, _⟩ := C16.checkAllECDSASigs_fresh .repaired _ _ _ _ _ hfresh' hbk
    obtain ⟨_, hw, _⟩ := hall n sa.art a' hart ha'
    obtain ⟨e, he, hpos⟩ := hw.mp hweak
    obtain ⟨hres, _, _⟩ := C16.fresh_entries .repaired _ _ _ _ _ _ hndS hbk n sa.art a' hart ha' hfr
    rw [hres, List.mem_filterMap] at he
    obtain ⟨s, hs, hes⟩ := he
    obtain ⟨j, c, hj, rfl⟩ := mem_mkSteps hs
    have hget := C16.fresh_entry_of_check .repaired _ _ _ _ _ _ hndS hbk n sa.art a' hart ha' hfr _ hs
    cases hiss : c.issuer with
    | true =>
      right
      obtain ⟨_, hname⟩ := ecdsaAll_flags c (List.mem_of_getElem? hj)
      refine ⟨e, ?_, hpos⟩
      rw [← (hname hiss).1]
      rw [hes] at hget
      exact hget
    | false =>
      left
      rw [expectedEntry_generic _ _ _ _ _ _ _ hiss] at hes hget
      split at hes
      · simp only [Option.some.injEq] at hes
        subst hes
        obtain ⟨d, obj, hv, hd, hobj, hk⟩ := key j c hj hiss hpos
        refine ⟨j, c, d, obj, hj, hiss, ?_, hd, hobj, hk⟩
        rw [hget, if_pos ‹_›]
        simp only [entryFor, sevFor, (ecdsaAll_flags c (List.mem_of_getElem? hj)).1, hv,
          EcdsaChecks.posVerdict, Bool.false_and, Bool.false_eq_true, if_false]
      · cases hes
  · intro x hx
    obtain ⟨s, hs, hiss, _, hpos, hinfo⟩ := fresh_attached hbk
      (fun s hs i => by
        obtain ⟨j, c, _, rfl⟩ := mem_mkSteps hs
        exact sigVerdictAt_factors hinv hsteps j i) hart ha' hfr _ x hx
    obtain ⟨j, c, hj, rfl⟩ := mem_mkSteps hs
    obtain ⟨d, obj, hv, hd, hobj, hk⟩ := key j c hj hiss hpos
    simp only at hinfo
    rw [hv] at hinfo
    simp only [EcdsaChecks.posVerdict, Option.some.injEq, Prod.mk.injEq, true_and] at hinfo
    exact ⟨d, obj, hinfo.symm, hobj, hk⟩

/-- ★ `checkAllECDSA_issuer_entry` (C02 / C16 end to end, CheckIssuerKey half;
`C16.issuer_verdict` with the REAL inner model).  `CheckAllECDSASigs` on FRESH signatures, any batch
and oracle values.  There is a state `tables` of the curve objects (the one the registered checks
before CheckIssuerKey left behind) such that, for `keys'` = the batch after the END-TO-END model
`checkAllECFull` of `paranoid.CheckAllEC` ran on `pks_pb` = fresh `ECKey`s of the distinct
(curve id, x, y) issuer keys of the batch from that state:
the signature at position `n` has its own issuer key at some position `k` of `pks_pb`, and its
CheckIssuerKey entry is positive IFF `CheckAllEC` marked that key weak; the entry then carries the
HIGHEST severity among the key's failed EC checks, and `SEVERITY_UNKNOWN` (0) otherwise. -/
theorem checkAllECDSA_issuer_entry (p : EcParams) (O : SigOracle) (st : SigState XTable)
    (sarts : List SigArt) (run : SigRun XTable)
    (hfresh : ∀ sa ∈ sarts, sa.info = TestInfo.empty)
    (h : checkAllECDSASigsFull p O st sarts = .ok run)
    (n : Nat) (sa : SigArt) (a' : Artifact) (hsa : sarts[n]? = some sa)
    (ha' : run.result.1[n]? = some a') :
    ∃ (j : Nat) (tables tables' : List EcState) (keys' : List Artifact) (rk : Bool) (k : Nat)
      (key' : Artifact) (e : Entry),
      (ecdsaAll[j]?).map (·.name) = some "CheckIssuerKey" ∧
      checkAllECFull p (O.floats j) tables (issuerKeys .repaired (sarts.map SigArt.art)) =
        .ok ((keys', rk), tables') ∧
      (issuerKeys .repaired (sarts.map SigArt.art))[k]? = some (freshKey sa.art) ∧
      keys'[k]? = some key' ∧
      getTestResult a'.info "CheckIssuerKey" = some e ∧
      (e.result = true ↔ key'.info.weak = true) ∧
      (key'.info.weak = true →
        (∃ e0 ∈ key'.info.results, e0.result = true ∧ e0.severity = e.severity) ∧
        ∀ e0 ∈ key'.info.results, e0.result = true → e0.severity ≤ e.severity) ∧
      (key'.info.weak = false → e.severity = Consts.severityUnknown) := by
  obtain ⟨hsteps, hbk⟩ := checkAllECDSASigsFull_ok h
  obtain ⟨hart, _⟩ := sigArts_getElem? hsa
  have hfr : sa.art.info = TestInfo.empty := hfresh sa (List.mem_of_getElem? hsa)
  have hndS := mkSteps_nodup ecdsaAll (sigVerdictAt run.outs) (sigInnerAt run.outs) ecdsaAll_nodup
  have hj : ecdsaAll[6]? = some ⟨"CheckIssuerKey", 0, false, false, true⟩ := by
    rw [ecdsaAll_eq]; rfl
  -- the CheckIssuerKey step of the run
  obtain ⟨_, hf⟩ := sigStepsG_spec (fun _ => True) (fun _ _ _ _ _ _ _ => trivial) _ st run.outs
    run.state trivial hsteps
  obtain ⟨out, hout, sti, sti', _, hstep⟩ := forall₂_idx hf 6 _ (zipIdx_getElem? _ 6 _ hj)
  rcases runSigStepG_cases hstep with ⟨_, _, _, rows, rfl, hrows⟩ | ⟨hiss, _⟩
  swap
  · cases hiss
  have hinner : sigInnerAt run.outs 6 = verdictAt rows := by
    funext jj k; simp only [sigInnerAt, hout]
  -- its entry on the signature
  have hs := mkSteps_mem (O := sigVerdictAt run.outs) (I := sigInnerAt run.outs) hj
  have hget := C16.fresh_entry_of_check .repaired _ _ _ _ _ _ hndS hbk n sa.art a' hart ha' hfr _ hs
  obtain ⟨_, _, hgood⟩ := checkArtifacts_spec hbk
  obtain ⟨keys', r', hin, hok⟩ := hgood _ hs rfl
  rw [issuerKeys_statics] at hin
  simp only [hinner] at hin
  obtain ⟨k, key0, key', hk, hk', hid, ⟨b, hb, hkb⟩, hact, hfind⟩ :=
    issuer_key_exists hin sa.art (List.mem_of_getElem? hart)
  obtain ⟨en, hen⟩ := hok key' (List.mem_of_getElem? hk')
  have hexp : expectedEntry .repaired Consts.libVersion ecAll
      ⟨⟨"CheckIssuerKey", 0, false, false, true⟩, sigVerdictAt run.outs 6, sigInnerAt run.outs 6⟩
      (statics (sarts.map SigArt.art)) n sa.art = some en := by
    simp [expectedEntry, issuerKeys_statics, hinner, hin, hfind, hen]
  rw [hexp] at hget
  have hkey : key0 = freshKey sa.art := by
    rw [hkb]
    have : keyId .repaired b = keyId .repaired sa.art := by
      rw [← keyId_freshKey .repaired b, ← hkb]; exact hid
    simp only [keyId, Prod.mk.injEq] at this
    simp only [freshKey, Artifact.mk.injEq, true_and]
    exact ⟨this.1, Prod.ext this.2.1 this.2.2⟩
  obtain ⟨_, e2, e3, e4⟩ := issuerEntry_spec hen
  have hfull : checkAllECFull p (O.floats 6) sti.tables (issuerKeys .repaired (sarts.map SigArt.art)) =
      .ok ((keys', r'), sti'.tables) := by
    apply checkAllECFull_of hrows
    rw [← innerCheckAllEC_eq (verdictAt rows) noInner]
    exact hin
  refine ⟨6, sti.tables, sti'.tables, keys', r', k, key', en, by rw [hj]; rfl, hfull,
    by rw [← hkey]; exact hk, hk', hget, by rw [e2], ?_, ?_⟩
  · intro hw
    exact C16.highest_severity_spec key'.info |>.2 en.severity (e4 hw)
  · intro hw
    exact e3 hw

/-- ★ the two halves together (C02 end to end): after `CheckAllECDSASigs` on FRESH signatures from
valid curve objects, a signature is weak ONLY IF a nonce check recorded a verifiable private key of
its own issuer key, OR the end-to-end `CheckAllEC` model, run on the distinct issuer keys of the
batch, marks its issuer key weak. -/
theorem checkAllECDSA_weak_only_with_key_or_weak_issuer (p : EcParams) (O : SigOracle)
    (st : SigState XTable) (sarts : List SigArt) (run : SigRun XTable)
    (hF : EcdsaChecks.FactoryOK st.factory) (hnd : (st.factory.map Prod.fst).Nodup)
    (hfresh : ∀ sa ∈ sarts, sa.info = TestInfo.empty)
    (h : checkAllECDSASigsFull p O st sarts = .ok run)
    (n : Nat) (sa : SigArt) (a' : Artifact) (hsa : sarts[n]? = some sa)
    (ha' : run.result.1[n]? = some a') (hweak : a'.info.weak = true) :
    (∃ (j : Nat) (c : CheckSpec) (d : Int) (obj : EcdsaChecks.CurveObj),
      ecdsaAll[j]? = some c ∧ c.issuer = false ∧
      getTestResult a'.info c.name = some ⟨c.name, true, c.severity⟩ ∧
      d ∈ (O.solver j sa.sig.curve).guessList ∧ (sa.sig.curve, some obj) ∈ st.factory ∧
      EcdsaChecks.KeyOf obj.curve sa.sig.key d) ∨
    (∃ (j : Nat) (tables tables' : List EcState) (keys' : List Artifact) (rk : Bool) (k : Nat)
      (key' : Artifact),
      checkAllECFull p (O.floats j) tables (issuerKeys .repaired (sarts.map SigArt.art)) =
        .ok ((keys', rk), tables') ∧
      (issuerKeys .repaired (sarts.map SigArt.art))[k]? = some (freshKey sa.art) ∧
      keys'[k]? = some key' ∧ key'.info.weak = true) := by
  rcases (checkAllECDSA_weak_only_with_key p O st sarts run hF hnd hfresh h n sa a' hsa ha').1 hweak
    with h1 | ⟨e, he, hpos⟩
  · exact .inl h1
  · obtain ⟨j, tables, tables', keys', rk, k, key', e', _, hfull, hk, hk', he', hiff, _⟩ :=
      checkAllECDSA_issuer_entry p O st sarts run hfresh h n sa a' hsa ha'
    rw [he] at he'
    cases he'
    exact .inr ⟨j, tables, tables', keys', rk, k, key', hfull, hk, hk', hiff.mp hpos⟩

/-- ★ `entries` for `CheckAllECDSASigs` (C16 end to end).  On FRESH signatures: the batch keeps its
length; every signature carries EXACTLY one entry per registered check that applies to it, in
registry order — all eight when its issuer curve id is in `CURVE_FACTORY`, CheckIssuerKey alone
otherwise; the entry of a nonce check is `(check_name, verdict of the check model, documented
severity)` (the CheckIssuerKey entry: `checkAllECDSA_issuer_entry`); weak iff some entry is
positive; version recorded; the call returns True iff some signature is weak afterwards. -/
theorem checkAllECDSA_entries (p : EcParams) (O : SigOracle) (st : SigState XTable)
    (sarts : List SigArt) (run : SigRun XTable)
    (hfresh : ∀ sa ∈ sarts, sa.info = TestInfo.empty)
    (h : checkAllECDSASigsFull p O st sarts = .ok run) :
    run.result.1.length = sarts.length ∧
    (run.result.2 = true ↔ ∃ a' ∈ run.result.1, a'.info.weak = true) ∧
    ∀ (n : Nat) (sa : SigArt) (a' : Artifact), sarts[n]? = some sa → run.result.1[n]? = some a' →
      a'.info.results.map (·.name) =
        (if (factoryGet ecFactory sa.sig.curve).isSome then ecdsaAll.map (·.name)
         else ["CheckIssuerKey"]) ∧
      (∀ (j : Nat) (c : CheckSpec), ecdsaAll[j]? = some c → c.issuer = false →
        getTestResult a'.info c.name =
          if applicable c sa.art then some ⟨c.name, (sigVerdictAt run.outs j n).positive, c.severity⟩
          else none) ∧
      (a'.info.weak = true ↔ ∃ e ∈ a'.info.results, e.result = true) ∧
      a'.info.version = Consts.libVersion := by
  obtain ⟨_, hbk⟩ := checkAllECDSASigsFull_ok h
  have hfresh' : ∀ a ∈ sarts.map SigArt.art, a.info = TestInfo.empty := by
    intro a hm
    obtain ⟨sa', hs', rfl⟩ := List.mem_map.mp hm
    exact hfresh sa' hs'
  obtain ⟨hall, hret⟩ := C16.checkAllECDSASigs_fresh .repaired _ _ _ _ _ hfresh' hbk
  have hmono := C16.checkArtifacts_monotone .repaired _ _ _ _ _ _ hbk
  have hndS := mkSteps_nodup ecdsaAll (sigVerdictAt run.outs) (sigInnerAt run.outs) ecdsaAll_nodup
  refine ⟨by rw [hmono.1, List.length_map], hret, ?_⟩
  intro n sa a' hsa ha'
  obtain ⟨hart, _⟩ := sigArts_getElem? hsa
  obtain ⟨hnames, hweak, hver⟩ := hall n sa.art a' hart ha'
  have hfr := hfresh sa (List.mem_of_getElem? hsa)
  refine ⟨?_, ?_, hweak, hver⟩
  · rw [hnames, ecdsaAll_eq]
    have hk : known sa.art = (factoryGet ecFactory sa.sig.curve).isSome := by
      rw [factoryGet_isSome]; rfl
    simp only [List.filter_cons, applicable, Bool.not_true, Bool.not_false, Bool.false_or,
      Bool.true_or, Bool.or_true, hk, List.filter_nil]
    cases (factoryGet ecFactory sa.sig.curve).isSome <;> simp
  · intro j c hj hiss
    have hs := mkSteps_mem (O := sigVerdictAt run.outs) (I := sigInnerAt run.outs) hj
    rw [C16.fresh_entry_of_check .repaired _ _ _ _ _ _ hndS hbk n sa.art a' hart ha' hfr _ hs,
      expectedEntry_generic _ _ _ _ _ _ _ hiss]
    simp [entryFor, sevFor, (ecdsaAll_flags c (List.mem_of_getElem? hj)).1]

/-- ★ totality of `CheckAllECDSASigs` (C18 end to end).  On a well-formed call (`SigWF`: valid
curve objects that are those of `CURVE_FACTORY` up to `_cache`, reachable `_table` states,
`list(set)` oracles that are enumerations, `s` invertible modulo the curve order for signatures
with a known curve, well-formed inner `CheckAllEC` call on the distinct issuer keys) with ANY
value of the literal `2**32`: all eight registered checks return — for ANY solver ANSWERS (the solvers are
answer oracles of this model: an exception raised inside a solver, e.g. `Cr50U2fGuesses` for `r ≡ 0 (mod n)`,
is not modelled here; `C18Ec.checkAllECDSASigs_solver_total` composes the solver models under
`r, s ∈ [1, n-1]` and drops the valid-issuer-key clause of `SigWF`), any hash length,
batch size, duplicates and unknown curve ids — the check models and the bookkeeping layer agree
about which signatures get an entry, the bookkeeping layer does not raise (whatever `test_info` the
signatures already carry), and the curve objects are left in a state from which the next call is
covered again. -/
theorem checkAllECDSASigsFull_total (p : EcParams)
    (O : SigOracle) (st : SigState XTable) (sarts : List SigArt) (hwf : SigWF p O st sarts) :
    ∃ run, checkAllECDSASigsFull p O st sarts = .ok run ∧ TotInv run.state := by
  obtain ⟨outs, st', hsteps, hi'⟩ := sigStepsG_totalB hwf ecdsaAll.zipIdx
    (fun cj hcj => by
      have := List.mem_zipIdx hcj
      simp only [Nat.zero_le, Nat.zero_add, Nat.sub_zero, true_and] at this
      rw [List.getElem?_eq_getElem this.1]; exact congrArg some this.2.symm)
    st ⟨hwf.factory, hwf.curves, hwf.tables⟩
  have hinv : SigInv st.factory st := ⟨hwf.factory, by
    rw [curvesOf_ids hwf.curves]; exact C02S.namedFactory_ids.1, fun cid obj hm => ⟨obj, hm, rfl⟩⟩
  obtain ⟨r, hbk⟩ := checkArtifacts_ok .repaired Consts.libVersion ecAll
    (mkSteps ecdsaAll (sigVerdictAt outs) (sigInnerAt outs))
    (fun s hs => by
      obtain ⟨j, c, _, rfl⟩ := mem_mkSteps hs
      exact ⟨fun i => sigVerdictAt_factors hinv hsteps j i, fun jj k => sigInnerAt_factors outs j jj k⟩)
    (sarts.map SigArt.art)
  refine ⟨⟨r, outs, st'⟩, ?_, hi'⟩
  unfold checkAllECDSASigsFull checkAllECDSASigsFullG
  rw [hsteps]
  simp only
  have : checkAllECDSASigs .repaired (sigVerdictAt outs) (sigInnerAt outs) (sarts.map SigArt.art) =
      .ok r := hbk
  rw [this]

/-! ## The native driver runs the same functions -/

/-- The correspondence harness talks to a driver that keeps every `_table` in a `Std.HashMap`
(rebuilt from the state token `size:m`, `C10.driver_token_state`).  From states that answer every
lookup alike (`SimSts`), both instances of the composed entry-point models end with the same error,
or with the same annotated batch and return value (for `CheckAllECDSASigs` also the same per-check
verdicts, solver calls and inner rows) and again related states. -/
theorem driver_model_agree (p : EcParams) :
    (∀ (o : EcOracle) (arts : List Artifact) (ss : List (StateG XTable)) (ts : List (StateG HTable)),
      SimSts ss ts →
      RowsSim (checkAllECFullG listImpl p o ss arts) (checkAllECFullG hashImpl p o ts arts)) ∧
    (∀ (O : SigOracle) (sarts : List SigArt) (a : SigState XTable) (b : SigState HTable),
      SimSig a b →
      RelErr (fun (x : SigRun XTable) (y : SigRun HTable) =>
          x.result = y.result ∧ x.outs = y.outs ∧ SimSig x.state y.state)
        (checkAllECDSASigsFullG listImpl p O a sarts) (checkAllECDSASigsFullG hashImpl p O b sarts)) :=
  ⟨fun o arts _ _ h => checkAllECFullG_sim p o arts h,
   fun O sarts _ _ h => checkAllECDSASigsFullG_sim p O sarts h⟩

/-! ## Non-vacuity: the hypotheses are met by concrete non-trivial inputs -/

/-- the curve objects of a fresh process. -/
def freshTables : List EcState := ecFactory.map fun _ => StateG.init listImpl

/-- float oracles `(ts, m) = (3, 1)` / `m = 4096` for every curve object. -/
def someFloats : EcOracle := ⟨ecFactory.map fun _ => (3, 1), ecFactory.map fun _ => 4096⟩

/-- the generators of secp256r1 (id 2) and secp192r1 (id 1) as public keys, a key with the unknown
curve id 0 and one with the binary-field id 7 (`None` entry of `CURVE_FACTORY`). -/
def sampleKeys : List Artifact :=
  [⟨TestInfo.empty, 2, (secp256r1.gx.toNat, secp256r1.gy.toNat)⟩,
   ⟨TestInfo.empty, 1, (secp192r1.gx.toNat, secp192r1.gy.toNat)⟩,
   ⟨TestInfo.empty, 0, (1, 2)⟩, ⟨TestInfo.empty, 7, (5, 7)⟩]

/-- `ECWF` is satisfiable with the REAL parameters (`2**32`, `2**24`), fresh curve objects and a
batch mixing two known curves, an unknown id and a binary-field id — so `checkAllECFull_total`
applies to it, and its conclusion provides the hypothesis `… = .ok …` of `checkAllEC_dlogs_sound`
and `checkAllEC_entries` on a batch of fresh keys. -/
example : ECWF EcParams.real someFloats freshTables sampleKeys := by
  have hwk : List.Forall₂ (fun (e : FEntry) (x : Nat × Nat) =>
      groupPoints e.id (sampleKeys.map keyOf) ≠ [] → 1 ≤ x.1 ∧ 1 ≤ x.2) ecFactory someFloats.wk :=
    forall₂_const (fun _ => (3, 1)) ecFactory (fun _ _ _ => ⟨by decide, by decide⟩)
  have hsd : List.Forall₂ (fun (_ : FEntry) (m : Nat) => 0 < EcParams.real.maxDiff → 1 ≤ m)
      ecFactory someFloats.sd :=
    forall₂_const (fun _ => 4096) ecFactory (fun _ _ _ => by decide)
  refine ⟨statesOK_init _, ?_, hwk, hsd⟩
  intro a ha c hc
  simp only [sampleKeys, List.mem_cons, List.not_mem_nil, or_false] at ha
  rcases ha with rfl | rfl | rfl | rfl
  · have : factoryGet ecFactory 2 = some secp256r1 := by decide +kernel
    rw [this] at hc; cases hc
    exact ⟨by decide +kernel, by decide +kernel⟩
  · have : factoryGet ecFactory 1 = some secp192r1 := by decide +kernel
    rw [this] at hc; cases hc
    exact ⟨by decide +kernel, by decide +kernel⟩
  · have : factoryGet ecFactory 0 = none := by decide +kernel
    rw [this] at hc; cases hc
  · have : factoryGet ecFactory 7 = none := by decide +kernel
    rw [this] at hc; cases hc

/-- a kernel-evaluated run of the composed model (bound 1 and `max_diff = 4` instead of `2**32` /
`2**24` so that the kernel can evaluate it): the key `3·G` on secp192r1 and a key with the unknown
curve id 0.  The first gets all four entries, is flagged by CheckWeakCurve and by
CheckWeakECPrivateKey with `DISCRETE_LOG = "3"`; the second gets the CheckValidECKey entry only. -/
example : (checkAllECFull ⟨1, 4⟩ ⟨ecFactory.map fun _ => (5, 2), ecFactory.map fun _ => 2⟩ freshTables
      [⟨TestInfo.empty, 1, (2915109630280678890720206779706963455590627465886103135194,
          2946626711558792003980654088990112021985937607003425539581)⟩,
       ⟨TestInfo.empty, 0, (1, 2)⟩]).toOption.map (fun r => (r.1.1.map (·.info), r.1.2)) =
    some ([⟨true, [⟨"CheckValidECKey", false, 2⟩, ⟨"CheckWeakCurve", true, 2⟩,
                   ⟨"CheckWeakECPrivateKey", true, 4⟩, ⟨"CheckECKeySmallDifference", false, 3⟩],
             [("DISCRETE_LOG", .raw "3")], "1.1.1"⟩,
           ⟨true, [⟨"CheckValidECKey", true, 2⟩], [], "1.1.1"⟩], true) := by
  decide +kernel

/-- a registry name without a model is an error, not a pass. -/
example : (runEcCheckG listImpl EcParams.real someFloats [] "CheckSomethingNew" freshTables).toOption.isNone
    ∧ runEcCheckG listImpl EcParams.real someFloats [] "CheckSomethingNew" freshTables =
      .error (.noModel "CheckSomethingNew") := by
  constructor <;> rfl

/-- an oracle that answers nothing (every solver returns no guess). -/
def silentOracle : SigOracle :=
  ⟨fun _ _ => ⟨fun _ => [], fun _ _ => [], []⟩, fun _ => someFloats⟩

/-- a kernel-evaluated run of the composed signature model: two signatures whose issuer curve ids
are unknown (0) / binary-field (7).  No nonce check writes an entry; CheckIssuerKey runs the whole
`CheckAllEC` model on the two distinct issuer keys, CheckValidECKey flags both (SEVERITY_MEDIUM = 2)
and that severity is copied to the signatures. -/
example : (checkAllECDSASigsFull EcParams.real silentOracle (SigState.fresh listImpl)
      [⟨TestInfo.empty, ⟨0, [1], [2], [3], [4], [5]⟩⟩,
       ⟨TestInfo.empty, ⟨7, [1], [2], [3], [4], [5]⟩⟩]).toOption.map
        (fun run => (run.result.1.map (·.info), run.result.2)) =
    some ([⟨true, [⟨"CheckIssuerKey", true, 2⟩], [], "1.1.1"⟩,
           ⟨true, [⟨"CheckIssuerKey", true, 2⟩], [], "1.1.1"⟩], true) := by
  decide +kernel

end Paranoid.EcAll
