/-
Props/C16EcAllCert.lean — additions to Props/C16EcAll.lean (same namespace):

* `checkAllEC_dlogs_sound_priv`: the `DISCRETE_LOG` half of `checkAllEC_dlogs_sound` for keys that
  HAVE a private key (`P = d • G`, any integer `d`) — no `n • P = ∞` hypothesis, no primality
  hypothesis; additionally `v ≡ d (mod n)`.
  NOT proved (and not in the trusted base unless added there): "every point accepted by
  `IsValidPublicKey` on one of the nine cofactor-1 curves satisfies `n • P = ∞`", i.e.
  `#E(F_p) = n` for the nine named curves (standards; no point counting in Mathlib).
* non-vacuity of the end-to-end hypotheses with NON-trivial inputs: `ECWF` at the parameters of the
  quick tier of harness/corr/ecall.py (`2**16`, `2**10`); `SigWF` for two secp256r1 signatures of one
  issuer plus a signature with an unknown curve id, with a solver that answers; a kernel-evaluated
  run of `checkAllECDSASigsFull` in which a nonce check writes POSITIVE entries with a
  `DISCRETE_LOG` on a known curve, CheckIssuerKey copies the severity of the inner
  CheckWeakECPrivateKey, and the curve object is left with a non-fresh table.
-/
import ParanoidModel.Props.C16EcAll
import ParanoidModel.Proofs.EcPrivKey
namespace Paranoid.EcAll
open Paranoid Paranoid.Ec Paranoid.Bsgs WeierstrassCurve

/-- ★ `checkAllEC_dlogs_sound_priv` (C02 end to end, keys with a private key).  After `CheckAllEC`
on FRESH keys — any batch (neighbours off their curve, unreduced, duplicates, unknown curves), any
bound, `max_diff`, `_table` states and float-oracle values — if the key at position `n` lies on a
known curve `c` and is `P = d • G` for SOME integer `d` (no range condition: "valid points with
arbitrary private keys"), then a `DISCRETE_LOG` attached to it is `format(v, "x")` for an integer
`v` with `v • G = P` and `v ≡ d (mod n)`.  No hypothesis on the curve: primality of `p` and `n` is
kernel-checked (Props/C11Primes), `n • G = ∞` is the evaluated `paramsOK`. -/
theorem checkAllEC_dlogs_sound_priv (p : EcParams) (o : EcOracle) (sts : List EcState)
    (arts arts' : List Artifact) (r : Bool) (sts' : List EcState)
    (hfresh : ∀ a ∈ arts, a.info = TestInfo.empty)
    (h : checkAllECFull p o sts arts = .ok ((arts', r), sts'))
    (n : Nat) (a a' : Artifact) (ha : arts[n]? = some a) (ha' : arts'[n]? = some a')
    (c : Curve) (hc : factoryGet ecFactory a.curve = some c) :
    haveI : Fact (Nat.Prime c.p) := ⟨prime_of_get hc⟩
    ∀ (d : Int), onCurve c (keyOf a).pt = true → toPoint c (keyOf a).pt = d • Gp c →
      ∀ x, getAttachedInfo a'.info infoNameDiscreteLog = some x →
        ∃ v : Int, x = .raw (Proto.hexInt v) ∧ v • Gp c = toPoint c (keyOf a).pt ∧
          (v - d) % (c.n : Int) = 0 := by
  haveI : Fact (Nat.Prime c.p) := ⟨prime_of_get hc⟩
  intro d hon hd x hx
  obtain ⟨h1, _⟩ := checkAllEC_dlogs_sound p o sts arts arts' r sts' hfresh h n a a' ha ha' c hc
  obtain ⟨v, hv, hs⟩ := h1 x hx
  have hch := curveHyp_of_get hc
  obtain ⟨_, _, _, h4, _, h6⟩ := generator_of_paramsOK c hch.params
  have hsound := hs hon (order_smul_of_privateKey c h4 hd)
  exact ⟨v, hv, hsound, dlog_congr c (h6 (orderPrime_of_get hc)) hsound hd⟩

/-! ## Non-vacuity -/

/-- the parameters the quick tier of harness/corr/ecall.py runs the real code with. -/
def EcParams.quick : EcParams := ⟨2 ^ 16, 2 ^ 10⟩

/-- float oracles `(ts, m) = (1536, 39)` (`int(sqrt(2**16 * 36))`, `int(sqrt(1536))`) and
`int(sqrt(2**10)) = 32` for every curve object. -/
def quickFloats : EcOracle := ⟨ecFactory.map fun _ => (1536, 39), ecFactory.map fun _ => 32⟩

/-- `ECWF` at the QUICK-tier parameters (`2**16`, `2**10`) — the instance of
`checkAllECFull_total` the correspondence harness compares with the real code. -/
example : ECWF EcParams.quick quickFloats freshTables sampleKeys := by
  have hwk : List.Forall₂ (fun (e : FEntry) (x : Nat × Nat) =>
      groupPoints e.id (sampleKeys.map keyOf) ≠ [] → 1 ≤ x.1 ∧ 1 ≤ x.2) ecFactory quickFloats.wk :=
    forall₂_const (fun _ => (1536, 39)) ecFactory (fun _ _ _ => ⟨by decide, by decide⟩)
  have hsd : List.Forall₂ (fun (_ : FEntry) (m : Nat) => 0 < EcParams.quick.maxDiff → 1 ≤ m)
      ecFactory quickFloats.sd :=
    forall₂_const (fun _ => 32) ecFactory (fun _ _ _ => by decide)
  refine ⟨statesOK_init _, ?_, hwk, hsd⟩
  intro a ha c hc
  simp only [sampleKeys, List.mem_cons, List.not_mem_nil, or_false] at ha
  rcases ha with rfl | rfl | rfl | rfl
  · have : factoryGet ecFactory 2 = some secp256r1 := by decide +kernel
    rw [this] at hc; cases hc
    exact ⟨by decide +kernel, by decide +kernel⟩
  · have : factoryGet ecFactory 1 = some secp192r1 := by decide +kernel
    rw [this] at hc; cases hc
    exact ⟨by decide +kernel, by decide +kernel⟩
  · have : factoryGet ecFactory 0 = none := by decide +kernel
    rw [this] at hc; cases hc
  · have : factoryGet ecFactory 7 = none := by decide +kernel
    rw [this] at hc; cases hc

section sig
open Paranoid.EcdsaChecks

/-- big-endian bytes of the generator of secp256r1. -/
def g256x : List Nat := [107, 23, 209, 242, 225, 44, 66, 71, 248, 188, 230, 229, 99, 164, 64, 242,
  119, 3, 125, 129, 45, 235, 51, 160, 244, 161, 57, 69, 216, 152, 194, 150]
def g256y : List Nat := [79, 227, 66, 226, 254, 26, 127, 155, 142, 231, 235, 74, 124, 15, 158, 22,
  43, 206, 51, 87, 107, 49, 94, 206, 203, 182, 64, 104, 55, 191, 81, 245]

/-- two signatures `(r, s, hash) = (1, 1, 07)`, `(2, 3, 0909)` of the issuer key `G` of secp256r1
(private key 1) and one signature with the unknown curve id 0. -/
def sigs256 : List SigArt :=
  [⟨TestInfo.empty, ⟨2, g256x, g256y, [1], [1], [7]⟩⟩,
   ⟨TestInfo.empty, ⟨2, g256x, g256y, [2], [3], [9, 9]⟩⟩,
   ⟨TestInfo.empty, ⟨0, [1], [2], [3], [4], [5]⟩⟩]

/-- solver oracle of one check for curve id `cid0`: `unique_vals` of the only issuer in the order
`[(1, 1, 7), (2, 3, 0x909)]`, every solver call answers `gl`, `list(guesses) = gl`. -/
def answering (cid0 : Nat) (gl : List Int) : Nat → GroupOracle := fun cid =>
  if cid = cid0 then ⟨fun j => if j = 0 then [(1, 1, 7), (2, 3, 2313)] else [], fun _ _ => gl, gl⟩
  else ⟨fun _ => [], fun _ _ => [], []⟩

/-- CheckNonceMSB (registry position 2) gets the private key `1` from its solver; the other checks
get no guess.  Inner `CheckAllEC`: `someFloats`. -/
def oracle256 : SigOracle :=
  ⟨fun j => if j = 2 then answering 2 [1] else answering 2 [], fun _ => someFloats⟩

theorem oracle256_consistent : ∀ j < 8,
    checkConsistent .cr50 (oracle256.solver j) (sigs256.map SigArt.sig) namedFactory = true := by
  decide +kernel

theorem issuerKeys256 : issuerKeys .repaired (sigs256.map SigArt.art) =
    [⟨TestInfo.empty, 2, (secp256r1.gx.toNat, secp256r1.gy.toNat)⟩, ⟨TestInfo.empty, 0, (1, 2)⟩] := by
  decide +kernel

/-- ★ `SigWF` is inhabited by a NON-trivial call at the real parameters: fresh curve objects, two
secp256r1 signatures of one issuer (so `uniq` has a two-element issuer group and `sInv` two
invertible `s`), a signature on an unknown curve, a solver that answers for one check — so
`checkAllECDSASigsFull_total` applies to it. -/
theorem sigWF_inhabited : SigWF EcParams.real oracle256 (SigState.fresh listImpl) sigs256 where
  factory := (C02S.namedFactory_ok named_primes).1
  curves := rfl
  tables := statesOK_init _
  uniq := fun j c k hj _ => by
    have hj8 : j < 8 := by
      have := (List.getElem?_eq_some_iff.mp hj).1
      have h8 : ecdsaAll.length = 8 := by rw [ecdsaAll_eq]; rfl
      omega
    exact (consistent_of_check .cr50 (oracle256.solver j) _ namedFactory
      (oracle256_consistent j hj8)).1
  sInv := by
    intro sa hsa obj hobj
    simp only [sigs256, List.mem_cons, List.not_mem_nil, or_false] at hsa
    rcases hsa with rfl | rfl | rfl
    · have h1 : bytes2int [1] = 1 := by decide
      simp only [h1]
      simp
    · rw [C02S.namedFactory_eq] at hobj
      simp only [List.mem_cons, Prod.mk.injEq, Option.some.injEq, reduceCtorEq, and_false,
        List.not_mem_nil, or_false] at hobj
      rcases hobj with ⟨h, rfl⟩ | ⟨h, rfl⟩ | ⟨h, rfl⟩ | ⟨h, rfl⟩ | ⟨h, rfl⟩ | ⟨h, rfl⟩ | ⟨h, rfl⟩ |
        ⟨h, rfl⟩ | ⟨h, rfl⟩
      · decide +kernel
      all_goals (exact absurd h (by decide))
    · rw [C02S.namedFactory_eq] at hobj
      simp only [List.mem_cons, Prod.mk.injEq, Option.some.injEq, reduceCtorEq, and_false,
        List.not_mem_nil, or_false] at hobj
      rcases hobj with ⟨h, _⟩ | ⟨h, _⟩ | ⟨h, _⟩ | ⟨h, _⟩ | ⟨h, _⟩ | ⟨h, _⟩ | ⟨h, _⟩ | ⟨h, _⟩ |
        ⟨h, _⟩ <;> exact absurd h (by decide)
  inner := by
    intro j c _ _ sts hsts
    rw [issuerKeys256]
    have hwk : List.Forall₂ (fun (e : FEntry) (x : Nat × Nat) =>
        groupPoints e.id (([⟨TestInfo.empty, 2, (secp256r1.gx.toNat, secp256r1.gy.toNat)⟩,
          ⟨TestInfo.empty, 0, (1, 2)⟩] : List Artifact).map keyOf) ≠ [] → 1 ≤ x.1 ∧ 1 ≤ x.2)
        ecFactory someFloats.wk :=
      forall₂_const (fun _ => (3, 1)) ecFactory (fun _ _ _ => ⟨by decide, by decide⟩)
    have hsd : List.Forall₂ (fun (_ : FEntry) (m : Nat) => 0 < EcParams.real.maxDiff → 1 ≤ m)
        ecFactory someFloats.sd :=
      forall₂_const (fun _ => 4096) ecFactory (fun _ _ _ => by decide)
    refine ⟨hsts, ?_, hwk, hsd⟩
    intro a ha c hc
    simp only [List.mem_cons, List.not_mem_nil, or_false] at ha
    rcases ha with rfl | rfl
    · have : factoryGet ecFactory 2 = some secp256r1 := by decide +kernel
      rw [this] at hc; cases hc
      exact ⟨by decide +kernel, by decide +kernel⟩
    · have : factoryGet ecFactory 0 = none := by decide +kernel
      rw [this] at hc; cases hc

/-- … hence the call returns and leaves well-formed curve objects (instance of the totality
theorem at a non-trivial input). -/
example : ∃ run, checkAllECDSASigsFull EcParams.real oracle256 (SigState.fresh listImpl) sigs256 =
    .ok run ∧ TotInv run.state :=
  checkAllECDSASigsFull_total _ _ _ _ sigWF_inhabited

/-! a kernel-evaluated run in which a nonce check writes a POSITIVE entry on a known curve -/

/-- big-endian bytes of the generator of secp192r1. -/
def g192x : List Nat := [24, 141, 168, 14, 176, 48, 144, 246, 124, 191, 32, 235, 67, 161, 136, 0,
  244, 255, 10, 253, 130, 255, 16, 18]
def g192y : List Nat := [7, 25, 43, 149, 255, 200, 218, 120, 99, 16, 17, 237, 107, 36, 205, 213,
  115, 249, 119, 161, 30, 121, 72, 17]

/-- the same three signatures with the issuer key `G` of secp192r1 (id 1). -/
def sigs192 : List SigArt :=
  [⟨TestInfo.empty, ⟨1, g192x, g192y, [1], [1], [7]⟩⟩,
   ⟨TestInfo.empty, ⟨1, g192x, g192y, [2], [3], [9, 9]⟩⟩,
   ⟨TestInfo.empty, ⟨0, [1], [2], [3], [4], [5]⟩⟩]

def oracle192 : SigOracle :=
  ⟨fun j => if j = 2 then answering 1 [1] else answering 1 [],
   fun _ => ⟨ecFactory.map fun _ => (5, 2), ecFactory.map fun _ => 2⟩⟩

/-- entries of the two secp192r1 signatures after the run below. -/
def entries192 : List Entry :=
  [⟨"CheckLCGNonceGMP", false, 4⟩, ⟨"CheckLCGNonceJavaUtilRandom", false, 4⟩,
   ⟨"CheckNonceMSB", true, 4⟩, ⟨"CheckNonceCommonPrefix", false, 4⟩,
   ⟨"CheckNonceCommonPostfix", false, 4⟩, ⟨"CheckNonceGeneralized", false, 4⟩,
   ⟨"CheckIssuerKey", true, 4⟩, ⟨"CheckCr50U2f", false, 4⟩]

/-- ★ a kernel-evaluated run of the composed signature model (bound 1 and `max_diff = 4` instead of
`2**32` / `2**24` so that the kernel can evaluate the inner `CheckAllEC`; ≈ 30 s, almost all of it
the 26 scalar multiplications of the inner ExtendedBatchDL) on `sigs192`:
* every nonce check WRITES an entry for the two signatures on the known curve — seven entries each,
  six negative, CheckNonceMSB POSITIVE with `DISCRETE_LOG = "1"` (the solver's guess `1` is the
  private key of the issuer key `G`: `_IssuerDLogs` accepted it);
* CheckIssuerKey runs the whole `CheckAllEC` model on the two distinct issuer keys; the inner
  CheckWeakECPrivateKey flags `G` (severity 4, copied), CheckValidECKey flags the unknown-curve key
  (severity 2, copied);
* the signature with the unknown curve id gets the CheckIssuerKey entry only;
* the secp192r1 object is left with a NON-fresh table (`_table_size = 5`). -/
example : (checkAllECDSASigsFull ⟨1, 4⟩ oracle192 (SigState.fresh listImpl) sigs192).toOption.map
      (fun run => (run.result.1.map (·.info), run.result.2, run.state.tables.map (·.tableSize))) =
    some ([⟨true, entries192, [("DISCRETE_LOG", .raw "1")], "1.1.1"⟩,
           ⟨true, entries192, [("DISCRETE_LOG", .raw "1")], "1.1.1"⟩,
           ⟨true, [⟨"CheckIssuerKey", true, 2⟩], [], "1.1.1"⟩], true,
          [0, 0, 5, 0, 0, 0, 0, 0, 0, 0, 0, 0, 0, 0, 0, 0, 0, 0, 0]) := by
  decide +kernel

/-- the order oracles of that run are enumerations of the right sets (`uniq`, `guessList`), for
the check that receives the guess and for one that does not. -/
example : checkConsistent (.biased (.bias 1)) (oracle192.solver 2) (sigs192.map SigArt.sig)
      namedFactory = true ∧
    checkConsistent .cr50 (oracle192.solver 7) (sigs192.map SigArt.sig) namedFactory = true := by
  decide +kernel

end sig

end Paranoid.EcAll
