/-
Props/C16Merge.lean — C16 for PRE-ANNOTATED artefacts: the exact `test_info` after a run.

Props/C16.lean gives, for artefacts that already carry `test_info` from earlier runs, only
monotonicity (`checkArtifacts_monotone`) and the return relation; the entry tables there assume
`a.info = TestInfo.empty`.  Here, for ANY initial `test_info` — entries of an earlier library
run (stale positive or negative verdicts of the same checks), entries with foreign names, several
entries with the same name (a protobuf repeated field allows it), any order, any weak flag and
version string — and for every list of checks with pairwise different names (the three registries
are instances), every batch and EVERY verdict oracle, after `_CheckArtifacts` returned:

for every check that applies to the artefact, with `e` the `test_result` the check passes to
`util.SetTestResult` (name of the check, this run's verdict, severity rule):
* the entries named after the check are the OLD entries of that name with `e` merged into the
  FIRST of them, `(name, old.result OR e.result, max(old.severity, e.severity))`, later duplicates
  untouched; exactly `[e]` if there was none — so `GetTestResult` returns
  `mergeEntry old e` and the number of entries of that name is `max 1 (old number)`
  (exactly one unless the artefact came with duplicates);
* entries named after a check that does not apply (curve not in CURVE_FACTORY) and entries of any
  other name are untouched;
* the names of the result list are the old names in their old order followed by the names of the
  applicable checks that had no entry, in the order the checks ran (together with the per-name
  statement this determines the whole list: nothing is reordered, removed or duplicated);
* `weak = old weak OR (some check of THIS run is positive)`: a stale positive entry or a stale weak
  flag is never cleared, and a stale weak flag without positive entry stays;
* `paranoid_lib_version`: kept if it was non-empty (also a stale or foreign version string),
  else set to the library version as soon as one check applies.  (It is NOT refreshed by a
  re-run: `if not test_info.paranoid_lib_version`.)

RANGE OF "ANY initial `test_info`" (second review, L24): `Entry.severity : Nat` (Model/Bookkeeping.lean), so
"any" means any test_info whose severities are NON-NEGATIVE.  `paranoid.proto` is proto3 and
`TestResultsEntry.severity` an open enum (`SeverityType`, named values 0 … 4): the protobuf runtime accepts and
round-trips every int32, including negative ones (measured: `r.severity = -1`, `= -2**31` are stored;
`2**31` raises ValueError "Value out of range"; a serialized -1 parses back as -1; `SetTestResult` of a
severity-0 entry onto a stale severity -1 gives `max(-1, 0) = 0`).  Artefacts carrying a negative severity are
outside the model and outside every theorem of this file; the library itself only ever writes the named
values 0 … 4.  Unnamed values ≥ 5 are covered.

Helper lemmas: Proofs/CheckMerge.lean (from `checkArtifacts_spec`).
-/
import ParanoidModel.Proofs.CheckMerge
import ParanoidModel.Props.C16
namespace Paranoid.C16Merge
open Paranoid

/-! ## util.SetTestResult on any TestInfo -/

/-- One `SetTestResult(e)` on ANY `TestInfo`: the entries named `e.name` get `e` merged into the
first of them (`[e]` if there is none), entries of every other name are untouched, names keep
their order with `e.name` appended iff it was missing; weak is OR-ed, the version is written only
if it was empty, attached info is untouched. -/
theorem setTestResult_exact (ver : String) (ti : TestInfo) (e : Entry) :
    namedAs e.name (setTestResult ver ti e).results = mergeInto (namedAs e.name ti.results) e ∧
    (∀ n, n ≠ e.name → namedAs n (setTestResult ver ti e).results = namedAs n ti.results) ∧
    (setTestResult ver ti e).results.map (·.name) =
      (if e.name ∈ ti.results.map (·.name) then ti.results.map (·.name)
       else ti.results.map (·.name) ++ [e.name]) ∧
    (setTestResult ver ti e).weak = (ti.weak || e.result) ∧
    (setTestResult ver ti e).version = (if ti.version = "" then ver else ti.version) ∧
    (setTestResult ver ti e).attached = ti.attached := by
  refine ⟨?_, fun n hn => ?_, ?_, rfl, rfl, rfl⟩
  · rw [setTestResult_results, namedAs_setRes, if_pos rfl]
  · rw [setTestResult_results, namedAs_setRes, if_neg hn]
  · rw [setTestResult_results, names_setRes]

/-- what `mergeInto` means for the readers `GetTestResult` (first entry of the name) and for the
number of entries. -/
theorem mergeInto_read (l : List Entry) (e : Entry) :
    (mergeInto l e).head? = some (mergeEntry l.head? e) ∧
    (mergeInto l e).length = max 1 l.length ∧ (mergeInto l e).tail = l.tail := by
  cases l with
  | nil => exact ⟨rfl, rfl, rfl⟩
  | cons x xs =>
    refine ⟨rfl, ?_, rfl⟩
    simp only [mergeInto, List.length_cons]
    omega

/-- the merged entry: name of the old entry, result OR-ed, severity = max; the new entry itself
when there was none. -/
theorem mergeEntry_spec (old : Option Entry) (e : Entry) :
    (old = none → mergeEntry old e = e) ∧
    (∀ x, old = some x → mergeEntry old e = ⟨x.name, x.result || e.result, max x.severity e.severity⟩) :=
  ⟨fun h => by rw [h]; rfl, fun x h => by rw [h]; rfl⟩

/-- Any history of util calls (no call raised) whose SetTestResult calls carry pairwise different
names, on ANY `TestInfo`: result list (names + per name), weak flag, version. -/
theorem ops_exact (ver : String) (ti t : TestInfo) (ops : List Op)
    (hnd : ((entriesOf ops).map (·.name)).Nodup) (h : applyOps ver ti ops = .ok t) :
    (∀ n, namedAs n t.results =
      match (entriesOf ops).find? (fun x => x.name = n) with
      | some e => mergeInto (namedAs n ti.results) e
      | none => namedAs n ti.results) ∧
    t.results.map (·.name) = ti.results.map (·.name) ++
      ((entriesOf ops).map (·.name)).filter (fun m => decide (m ∉ ti.results.map (·.name))) ∧
    t.weak = (ti.weak || (entriesOf ops).any (·.result)) ∧
    t.version = (if ti.version = "" ∧ (entriesOf ops).isEmpty = false then ver else ti.version) := by
  refine ⟨fun n => ?_, ?_, applyOps_weak h, applyOps_version h⟩
  · rw [applyOps_results h]; exact namedAs_resAll _ _ hnd n
  · rw [applyOps_results h]; exact names_resAll _ _ hnd

/-! ## `_CheckArtifacts` on pre-annotated artefacts -/

/-- MAIN THEOREM.  `_CheckArtifacts(arts, steps)` returned, check names pairwise different;
`a` = artefact at position `n` before (ANY `test_info`), `a'` after.  With
`expectedEntry … s … n a` the `test_result` step `s` passes to SetTestResult for this artefact
(`none`: the check does not apply) and `newEntries` the list of those of all steps:
(1) step applies: its name's entries = old ones with the new one merged into the first;
    `GetTestResult` = `mergeEntry old new`; count = `max 1 old count`;
(2) step does not apply: its name's entries untouched;
(3) names of no step: untouched;
(4) names: old names in order, then the new names that were missing, in run order;
(5) weak = old weak OR some new entry positive;
(6) version kept if non-empty, else the library version iff some step applied;
(7) a step applies iff it is CheckIssuerKey or (not needsCurve or the curve is known). -/
theorem preannotated_entries (var : Variant) (ver : String) (ec : List CheckSpec)
    (steps : List Step) (arts arts' : List Artifact) (r : Bool)
    (hnd : (steps.map (·.spec.name)).Nodup)
    (h : checkArtifacts var ver ec steps arts = .ok (arts', r))
    (n : Nat) (a a' : Artifact) (ha : arts[n]? = some a) (ha' : arts'[n]? = some a') :
    (∀ s ∈ steps, ∀ e, expectedEntry var ver ec s (statics arts) n a = some e →
      namedAs s.spec.name a'.info.results = mergeInto (namedAs s.spec.name a.info.results) e ∧
      getTestResult a'.info s.spec.name =
        some (mergeEntry (getTestResult a.info s.spec.name) e) ∧
      nameCount s.spec.name a'.info.results = max 1 (nameCount s.spec.name a.info.results)) ∧
    (∀ s ∈ steps, expectedEntry var ver ec s (statics arts) n a = none →
      namedAs s.spec.name a'.info.results = namedAs s.spec.name a.info.results) ∧
    (∀ nm, nm ∉ steps.map (·.spec.name) →
      namedAs nm a'.info.results = namedAs nm a.info.results) ∧
    a'.info.results.map (·.name) = a.info.results.map (·.name) ++
      ((newEntries var ver ec steps (statics arts) n a).map (·.name)).filter
        (fun m => decide (m ∉ a.info.results.map (·.name))) ∧
    a'.info.weak =
      (a.info.weak || (newEntries var ver ec steps (statics arts) n a).any (·.result)) ∧
    a'.info.version =
      (if a.info.version = "" ∧ (newEntries var ver ec steps (statics arts) n a).isEmpty = false
       then ver else a.info.version) ∧
    (∀ s ∈ steps, (expectedEntry var ver ec s (statics arts) n a).isSome =
      (s.spec.issuer || applicable s.spec a)) := by
  obtain ⟨p, _, g⟩ := checkArtifacts_spec h
  have hact := p.get n a a' ha ha'
  rw [Nat.zero_add] at hact
  obtain ⟨hres, hweak, hver⟩ := actsBy_merge hact
  have hnew := newEntries_nodup var ver ec steps (statics arts) n a hnd
  have hper : ∀ nm, namedAs nm a'.info.results =
      match (newEntries var ver ec steps (statics arts) n a).find? (fun x => x.name = nm) with
      | some e => mergeInto (namedAs nm a.info.results) e
      | none => namedAs nm a.info.results := by
    intro nm; rw [hres]; exact namedAs_resAll _ _ hnew nm
  refine ⟨fun s hs e he => ?_, fun s hs he => ?_, fun nm hnm => ?_, ?_, hweak, hver,
    fun s hs => expectedEntry_isSome (g s hs) n a (List.mem_of_getElem? ha)⟩
  · have hn := hper s.spec.name
    rw [find_newEntries var ver ec steps _ n a hnd s hs, he] at hn
    dsimp only at hn
    obtain ⟨m1, m2, _⟩ := mergeInto_read (namedAs s.spec.name a.info.results) e
    refine ⟨hn, ?_, ?_⟩
    · have := head_namedAs s.spec.name a'.info.results
      rw [hn, m1, head_namedAs] at this
      exact this.symm
    · rw [nameCount_eq_length_namedAs, nameCount_eq_length_namedAs, hn, m2]
  · have hn := hper s.spec.name
    rw [find_newEntries var ver ec steps _ n a hnd s hs, he] at hn
    exact hn
  · have hn := hper nm
    rw [find_newEntries_foreign var ver ec steps _ n a nm hnm] at hn
    exact hn
  · rw [hres]; exact names_resAll _ _ hnew

/-- the weak flag after a run, as an equivalence: weak before, or some check of this run that
applies to the artefact is positive. -/
theorem preannotated_weak_iff (var : Variant) (ver : String) (ec : List CheckSpec)
    (steps : List Step) (arts arts' : List Artifact) (r : Bool)
    (hnd : (steps.map (·.spec.name)).Nodup)
    (h : checkArtifacts var ver ec steps arts = .ok (arts', r))
    (n : Nat) (a a' : Artifact) (ha : arts[n]? = some a) (ha' : arts'[n]? = some a') :
    a'.info.weak = true ↔ a.info.weak = true ∨
      ∃ s ∈ steps, ∃ e, expectedEntry var ver ec s (statics arts) n a = some e ∧
        e.result = true := by
  rw [(preannotated_entries var ver ec steps arts arts' r hnd h n a a' ha ha').2.2.2.2.1,
    Bool.or_eq_true, List.any_eq_true]
  constructor
  · rintro (hw | ⟨e, he, hr⟩)
    · exact Or.inl hw
    · obtain ⟨s, hs, hes⟩ := List.mem_filterMap.1 he
      exact Or.inr ⟨s, hs, e, hes, hr⟩
  · rintro (hw | ⟨s, hs, e, hes, hr⟩)
    · exact Or.inl hw
    · exact Or.inr ⟨e, List.mem_filterMap.2 ⟨s, hs, hes⟩, hr⟩

/-- every check but CheckIssuerKey: the new entry is `(check_name, this run's verdict, severity
rule)`; none if the check needs the curve and the curve is unknown. -/
theorem expected_generic (var : Variant) (ver : String) (ec : List CheckSpec) (s : Step)
    (st : List Artifact) (j : Nat) (a : Artifact) (hs : s.spec.issuer = false) :
    expectedEntry var ver ec s st j a =
      if applicable s.spec a then some (entryFor s.spec (s.verdict j)) else none :=
  expectedEntry_generic var ver ec s st j a hs

/-! ## the three entry points -/

/-- conclusion of the entry-point theorems for the registry `specs` (checks numbered in registry
order, `O j n` = verdict of check `j` on artefact `n`): -/
structure RegistryMerge (var : Variant) (specs : List CheckSpec) (O : Nat → Nat → Verdict)
    (I : Nat → Nat → Nat → Verdict) (arts : List Artifact) (n : Nat) (a a' : Artifact) : Prop where
  /-- a registered check (not CheckIssuerKey) that applies: merged entry, exactly one unless the
  artefact came with duplicates -/
  applies : ∀ (j : Nat) (c : CheckSpec), specs[j]? = some c → c.issuer = false → applicable c a = true →
    namedAs c.name a'.info.results =
      mergeInto (namedAs c.name a.info.results) (entryFor c (O j n)) ∧
    getTestResult a'.info c.name =
      some (mergeEntry (getTestResult a.info c.name) (entryFor c (O j n))) ∧
    nameCount c.name a'.info.results = max 1 (nameCount c.name a.info.results)
  /-- a registered check that does not apply (unknown curve): its entries are untouched -/
  skips : ∀ (j : Nat) (c : CheckSpec), specs[j]? = some c → c.issuer = false → applicable c a = false →
    namedAs c.name a'.info.results = namedAs c.name a.info.results
  /-- CheckIssuerKey always applies; `en` is the entry built from the checked issuer key -/
  issuer : ∀ (j : Nat) (c : CheckSpec), specs[j]? = some c → c.issuer = true →
    ∃ en, expectedEntry var Consts.libVersion ecAll ⟨c, O j, I j⟩ (statics arts) n a = some en ∧
      en.name = c.name ∧
      namedAs c.name a'.info.results = mergeInto (namedAs c.name a.info.results) en ∧
      getTestResult a'.info c.name = some (mergeEntry (getTestResult a.info c.name) en) ∧
      nameCount c.name a'.info.results = max 1 (nameCount c.name a.info.results)
  /-- names outside the registry are untouched -/
  foreign : ∀ nm, nm ∉ specs.map (·.name) →
    namedAs nm a'.info.results = namedAs nm a.info.results
  /-- old names in their order, then the registry names that apply and were missing, in registry
  order -/
  names : a'.info.results.map (·.name) = a.info.results.map (·.name) ++
    ((specs.filter (fun c => c.issuer || applicable c a)).map (·.name)).filter
      (fun m => decide (m ∉ a.info.results.map (·.name)))
  /-- weak: old flag OR some applicable check positive in this run -/
  weak : a'.info.weak = true ↔ a.info.weak = true ∨
    (∃ (j : Nat) (c : CheckSpec), specs[j]? = some c ∧ c.issuer = false ∧ applicable c a = true ∧
      (O j n).positive = true) ∨
    (∃ (j : Nat) (c : CheckSpec) (en : Entry), specs[j]? = some c ∧ c.issuer = true ∧
      expectedEntry var Consts.libVersion ecAll ⟨c, O j, I j⟩ (statics arts) n a = some en ∧
      en.result = true)
  /-- version: kept if non-empty, else the library version iff some registered check applies -/
  version : a'.info.version =
    (if a.info.version = "" ∧ (∃ c ∈ specs, (c.issuer || applicable c a) = true)
     then Consts.libVersion else a.info.version)

theorem registry_preannotated (var : Variant) (specs : List CheckSpec)
    (O : Nat → Nat → Verdict) (I : Nat → Nat → Nat → Verdict) (arts arts' : List Artifact)
    (r : Bool) (hnd : (specs.map (·.name)).Nodup)
    (h : checkArtifacts var Consts.libVersion ecAll (mkSteps specs O I) arts = .ok (arts', r))
    (n : Nat) (a a' : Artifact) (ha : arts[n]? = some a) (ha' : arts'[n]? = some a') :
    RegistryMerge var specs O I arts n a a' := by
  have hnd' := mkSteps_names_nodup specs O I hnd
  obtain ⟨h1, h2, h3, h4, _, h6, h7⟩ :=
    preannotated_entries var _ _ _ arts arts' r hnd' h n a a' ha ha'
  have hweak := preannotated_weak_iff var _ _ _ arts arts' r hnd' h n a a' ha ha'
  have hmem : ∀ j c, specs[j]? = some c → (⟨c, O j, I j⟩ : Step) ∈ mkSteps specs O I :=
    fun j c hc => mem_mkSteps.2 ⟨j, c, hc, rfl⟩
  have hspecs := mkSteps_names specs O I
  have hnames : (mkSteps specs O I).map (·.spec.name) = specs.map (·.name) := by
    conv => rhs; rw [← hspecs]
    rw [List.map_map]; rfl
  refine ⟨?_, ?_, ?_, ?_, ?_, ?_, ?_⟩
  · intro j c hc hiss happ
    have he : expectedEntry var Consts.libVersion ecAll ⟨c, O j, I j⟩ (statics arts) n a =
        some (entryFor c (O j n)) := by
      rw [expectedEntry_generic _ _ _ _ _ _ _ hiss]; simp [happ]
    exact h1 _ (hmem j c hc) _ he
  · intro j c hc hiss happ
    have he : expectedEntry var Consts.libVersion ecAll ⟨c, O j, I j⟩ (statics arts) n a = none := by
      rw [expectedEntry_generic _ _ _ _ _ _ _ hiss]; simp [happ]
    exact h2 _ (hmem j c hc) he
  · intro j c hc hiss
    have hsome := h7 _ (hmem j c hc)
    simp only [hiss, Bool.true_or] at hsome
    obtain ⟨en, hen⟩ := Option.isSome_iff_exists.1 hsome
    obtain ⟨x1, x2, x3⟩ := h1 _ (hmem j c hc) en hen
    exact ⟨en, hen, expectedEntry_name hen, x1, x2, x3⟩
  · intro nm hnm
    exact h3 nm (by rw [hnames]; exact hnm)
  · rw [h4]
    congr 2
    unfold newEntries
    rw [names_filterMap _ (fun s => s.spec.name) (fun s e he => expectedEntry_name he)]
    have : (mkSteps specs O I).filter
        (fun s => (expectedEntry var Consts.libVersion ecAll s (statics arts) n a).isSome) =
        (mkSteps specs O I).filter (fun s => s.spec.issuer || applicable s.spec a) :=
      List.filter_congr (fun s hs => h7 s hs)
    rw [this]
    conv => rhs; rw [← hspecs]
    rw [List.filter_map, List.map_map]; rfl
  · rw [hweak]
    constructor
    · rintro (hw | ⟨s, hs, e, hes, hr⟩)
      · exact Or.inl hw
      · obtain ⟨j, c, hc, rfl⟩ := mem_mkSteps.1 hs
        cases hiss : c.issuer with
        | false =>
          rw [expectedEntry_generic _ _ _ _ _ _ _ hiss] at hes
          by_cases happ : applicable c a = true
          · simp only [happ, if_true, Option.some.injEq] at hes
            subst hes
            exact Or.inr (Or.inl ⟨j, c, hc, hiss, happ, hr⟩)
          · simp [happ] at hes
        | true => exact Or.inr (Or.inr ⟨j, c, e, hc, hiss, hes, hr⟩)
    · rintro (hw | ⟨j, c, hc, hiss, happ, hpos⟩ | ⟨j, c, en, hc, hiss, hen, hr⟩)
      · exact Or.inl hw
      · refine Or.inr ⟨_, hmem j c hc, entryFor c (O j n), ?_, hpos⟩
        rw [expectedEntry_generic _ _ _ _ _ _ _ hiss]; simp [happ]
      · exact Or.inr ⟨_, hmem j c hc, en, hen, hr⟩
  · rw [h6]
    have : ((newEntries var Consts.libVersion ecAll (mkSteps specs O I) (statics arts) n a).isEmpty
        = false) ↔ ∃ c ∈ specs, (c.issuer || applicable c a) = true := by
      rw [← Bool.not_eq_true, List.isEmpty_iff]
      unfold newEntries
      constructor
      · intro hne
        obtain ⟨e, he⟩ := List.exists_mem_of_ne_nil _ hne
        obtain ⟨s, hs, hes⟩ := List.mem_filterMap.1 he
        obtain ⟨j, c, hc, rfl⟩ := mem_mkSteps.1 hs
        have := h7 _ hs
        rw [hes] at this
        exact ⟨c, List.mem_of_getElem? hc, this.symm⟩
      · rintro ⟨c, hc, happ⟩
        obtain ⟨j, hj⟩ := List.mem_iff_getElem?.1 hc
        have hsome := h7 _ (hmem j c hj)
        rw [happ] at hsome
        obtain ⟨en, hen⟩ := Option.isSome_iff_exists.1 hsome
        intro hnil
        have : en ∈ (mkSteps specs O I).filterMap
            (fun s => expectedEntry var Consts.libVersion ecAll s (statics arts) n a) :=
          List.mem_filterMap.2 ⟨_, hmem j c hj, hen⟩
        rw [hnil] at this
        cases this
    by_cases hv : a.info.version = ""
    · by_cases hx : ∃ c ∈ specs, (c.issuer || applicable c a) = true
      · rw [if_pos ⟨hv, this.2 hx⟩, if_pos ⟨hv, hx⟩]
      · rw [if_neg (fun hh => hx (this.1 hh.2)), if_neg (fun hh => hx hh.2)]
    · rw [if_neg (fun hh => hv hh.1), if_neg (fun hh => hv hh.1)]

/-- CheckAllRSA on RSA keys with ANY `test_info`.  Every registered RSA check applies to every key
(`rsa_checks_always_apply`), so after the run each of the 17 check names (`rsaAll.length = 17`) has its merged entry. -/
theorem checkAllRSA_preannotated (var : Variant) (O : Nat → Nat → Verdict)
    (I : Nat → Nat → Nat → Verdict) (arts arts' : List Artifact) (r : Bool)
    (h : checkAllRSA var O I arts = .ok (arts', r))
    (n : Nat) (a a' : Artifact) (ha : arts[n]? = some a) (ha' : arts'[n]? = some a') :
    RegistryMerge var rsaAll O I arts n a a' :=
  registry_preannotated var rsaAll O I arts arts' r C16.registry_names_nodup.1 h n a a' ha ha'

theorem rsa_checks_always_apply :
    ∀ c ∈ rsaAll, c.issuer = false ∧ ∀ a, applicable c a = true := by
  have h : ∀ c ∈ rsaAll, c.issuer = false ∧ c.needsCurve = false := by decide +kernel
  intro c hc
  exact ⟨(h c hc).1, fun a => by simp [applicable, (h c hc).2]⟩

/-- CheckAllEC on EC keys with ANY `test_info`. -/
theorem checkAllEC_preannotated (var : Variant) (O : Nat → Nat → Verdict)
    (I : Nat → Nat → Nat → Verdict) (arts arts' : List Artifact) (r : Bool)
    (h : checkAllEC var O I arts = .ok (arts', r))
    (n : Nat) (a a' : Artifact) (ha : arts[n]? = some a) (ha' : arts'[n]? = some a') :
    RegistryMerge var ecAll O I arts n a a' :=
  registry_preannotated var ecAll O I arts arts' r C16.registry_names_nodup.2.1 h n a a' ha ha'

/-- CheckAllECDSASigs on signatures with ANY `test_info`. -/
theorem checkAllECDSASigs_preannotated (var : Variant) (O : Nat → Nat → Verdict)
    (I : Nat → Nat → Nat → Verdict) (arts arts' : List Artifact) (r : Bool)
    (h : checkAllECDSASigs var O I arts = .ok (arts', r))
    (n : Nat) (a a' : Artifact) (ha : arts[n]? = some a) (ha' : arts'[n]? = some a') :
    RegistryMerge var ecdsaAll O I arts n a a' :=
  registry_preannotated var ecdsaAll O I arts arts' r C16.registry_names_nodup.2.2.1 h n a a' ha ha'

/-! ## Non-vacuity -/

/-- an EC key on secp256r1 (curve id 2) as an earlier run / a hand edit left it: a STALE POSITIVE
CheckWeakCurve entry with a foreign severity 7, a FOREIGN entry "Other", a stale NEGATIVE
CheckValidECKey entry with a lower severity, a DUPLICATE CheckWeakCurve entry, weak flag set,
version of another release. -/
def staleKey : Artifact :=
  ⟨⟨true, [⟨"CheckWeakCurve", true, 7⟩, ⟨"Other", true, 1⟩, ⟨"CheckValidECKey", false, 1⟩,
           ⟨"CheckWeakCurve", false, 0⟩], [], "0.9.0"⟩, 2, (5, 6)⟩

/-- the same key labelled with the unknown curve id 0, no version recorded. -/
def staleKeyUnknown : Artifact :=
  ⟨⟨false, [⟨"CheckWeakCurve", true, 7⟩, ⟨"Other", false, 1⟩], [], ""⟩, 0, (5, 6)⟩

/-- CheckAllEC where this run finds only CheckWeakECPrivateKey positive on the first key: the
stale positive entry stays positive with severity max(7, 2) = 7, its duplicate is untouched, the
stale negative CheckValidECKey entry gets severity max(1, 2) = 2, "Other" is untouched, the two
missing checks are appended in registry order, the version stays "0.9.0"; on the unknown curve
only CheckValidECKey applies: CheckWeakCurve's stale entry is untouched, the weak flag goes up
because CheckValidECKey is positive, the version is recorded. -/
example :
    (checkAllEC .repaired
      (fun j i => if (j = 2 ∧ i = 0) ∨ (j = 0 ∧ i = 1) then ⟨true, none, none⟩
                  else ⟨false, none, none⟩)
      (fun _ _ _ => ⟨false, none, none⟩) [staleKey, staleKeyUnknown]).map
      (fun p => (p.1.map (·.info), p.2)) =
    .ok ([⟨true, [⟨"CheckWeakCurve", true, 7⟩, ⟨"Other", true, 1⟩, ⟨"CheckValidECKey", false, 2⟩,
                  ⟨"CheckWeakCurve", false, 0⟩, ⟨"CheckWeakECPrivateKey", true, 4⟩,
                  ⟨"CheckECKeySmallDifference", false, 3⟩], [], "0.9.0"⟩,
          ⟨true, [⟨"CheckWeakCurve", true, 7⟩, ⟨"Other", false, 1⟩,
                  ⟨"CheckValidECKey", true, 2⟩], [], "1.1.1"⟩], true) := by
  decide +kernel

/-- the pieces of `RegistryMerge` on that run, evaluated: merge of a stale positive entry with a
negative verdict, count with a pre-existing duplicate, a skipped check. -/
example :
    mergeEntry (some ⟨"CheckWeakCurve", true, 7⟩) (entryFor ⟨"CheckWeakCurve", 2, true, false, false⟩
      ⟨false, none, none⟩) = ⟨"CheckWeakCurve", true, 7⟩ ∧
    mergeInto (namedAs "CheckWeakCurve" staleKey.info.results) ⟨"CheckWeakCurve", false, 2⟩ =
      [⟨"CheckWeakCurve", true, 7⟩, ⟨"CheckWeakCurve", false, 0⟩] ∧
    nameCount "CheckWeakCurve" staleKey.info.results = 2 ∧
    applicable ⟨"CheckWeakCurve", 2, true, false, false⟩ staleKeyUnknown = false ∧
    applicable ⟨"CheckValidECKey", 2, false, false, false⟩ staleKeyUnknown = true := by
  decide +kernel

/-- a pre-annotated signature through CheckAllECDSASigs: the stale POSITIVE CheckIssuerKey entry
(severity 4) survives a run in which the issuer key is healthy (new entry negative, severity 0);
a stale negative CheckNonceMSB entry turns positive. -/
example :
    (checkAllECDSASigs .repaired
      (fun j _ => if j = 2 then ⟨true, none, none⟩ else ⟨false, none, none⟩)
      (fun _ _ _ => ⟨false, none, none⟩)
      [⟨⟨true, [⟨"CheckIssuerKey", true, 4⟩, ⟨"CheckNonceMSB", false, 4⟩], [], "0.9.0"⟩,
        2, (5, 6)⟩]).map
      (fun p => (p.1.map (fun a => (a.info.weak, a.info.results.take 2, a.info.results.length)),
        p.2)) =
    .ok ([(true, [⟨"CheckIssuerKey", true, 4⟩, ⟨"CheckNonceMSB", true, 4⟩], 8)], true) := by
  decide +kernel

end Paranoid.C16Merge
