/-
Props/RsaAll.lean — `paranoid.CheckAllRSA` END TO END (Model/RsaAll.lean `checkAllRSAFull`): the
seventeen per-check models plugged into the bookkeeping layer.  Property theorems only; helper
lemmas live in Proofs/RsaAll.lean.  Everything here is COMPOSITION of theorems proved elsewhere:
C01 (`check_*`: factors ⇒ weak ∧ divisibility), C03 (CheckGCD / CheckGCDN1 per-key records,
proper-divisor clause), C06 (closed-form checks, keypair step), C16 (`fresh_entries`,
`checkAllRSA_fresh`, `checkArtifacts_spec`), C18 (per-check totality).

All statements are universally quantified over the batch (`List RsaKey`, any length incl. 0, any
multiplicities), over every constructor parameter and storage content (`RsaGlobals`) and over
EVERY oracle answer (`RsaOracles`: LLL bases, float cube roots, candidate orders, SHA-1 digests,
generator outputs).  Hypothesis `checkAllRSAFull orc keys = .ok (arts', r)` reads "the entry
point returned"; `checkAllRSA_total` says when it does.
-/
import ParanoidModel.Proofs.RsaAll
namespace Paranoid.RsaAll
open Paranoid

/-! ## C18 end to end: totality -/

/-- ★ `CheckAllRSA` returns (never raises) on every well-formed batch: any number of keys
(including none), duplicates, moduli of 64 bits or more of ANY shape (prime, even, square, power
of two, odd bit length), any exponent — for every LLL answer whose rows have at least two
entries, every float cube root, every SHA-1 digest, every generator output, every Pollard
product, deny list and constructor parameter, provided the storage lists no zero PRNG output and
the keypair metadata are parsable (`seedFromMeta` succeeds). -/
theorem checkAllRSA_total (orc : RsaOracles) (keys : List RsaKey) (wf : WF orc keys) :
    ∃ arts' r, checkAllRSAFull orc keys = .ok (arts', r) := by
  obtain ⟨tbl, htbl⟩ := verdictTable_total wf
  unfold checkAllRSAFull
  rw [htbl]
  exact checkAllRSA_noRaw .repaired noInner (tableO_info htbl) (fresh_noRaw keys)

/-- a modulus below 64 bits anywhere in the batch makes the entry point raise (ValueError of
`n >> (n.bit_length() - 64)` in CheckKeypairDenylist, or an earlier exception): the size
hypothesis of `checkAllRSA_total` cannot be dropped. -/
theorem checkAllRSA_needs_64_bits (orc : RsaOracles) (keys : List RsaKey) (arts' : List Artifact)
    (r : Bool) (h : checkAllRSAFull orc keys = .ok (arts', r)) : ∀ k ∈ keys, 2 ^ 63 ≤ k.n := by
  obtain ⟨tbl, htbl, _⟩ := full_unfold h
  exact table_big htbl

/-- a registry name without a model is an error of the entry point, never a silent pass. -/
theorem unknown_check_is_error (name : String) (orc : RsaOracles) (keys : List RsaKey) (i : Nat)
    (h1 : singleModels.lookup name = none) (h2 : aggregateModels.lookup name = none) :
    rsaVerdict name orc keys i = .error .keyError := by
  simp [rsaVerdict, h1, h2]

/-- every name of the regenerated registry has a model, and the models are exactly the fifteen
single and two aggregate checks of the registry, in order. -/
theorem registry_modelled :
    singleModels.map (·.1) = Consts.rsaSingleChecks.map (·.1) ∧
    aggregateModels.map (·.1) = Consts.rsaAggregateChecks.map (·.1) ∧
    rsaAll.map (·.name) = singleModels.map (·.1) ++ aggregateModels.map (·.1) := by
  refine ⟨by decide +kernel, by decide +kernel, by decide +kernel⟩

/-! ## C16 end to end: the entries -/

/-- ★ After `CheckAllRSA` on FRESH keys the batch has its length, and every key `i` carries
EXACTLY ONE entry per check of the regenerated registry, in registry order: entry `j` is
`entryFor c v` = (check_name, `v.positive`, severity rule) where `c` is the `j`-th registered
check and `v` is the verdict `rsaVerdict c.name` of that check on that key; the weak flag is set
exactly when one of the entries is positive; the library version is recorded; the entry point
returns True exactly when some key is weak. -/
theorem checkAllRSA_entries (orc : RsaOracles) (keys : List RsaKey) (arts' : List Artifact)
    (r : Bool) (h : checkAllRSAFull orc keys = .ok (arts', r)) :
    arts'.length = keys.length ∧
    (∀ (i : Nat) (a' : Artifact), arts'[i]? = some a' →
      a'.info.results.map (·.name) = rsaAll.map (·.name) ∧
      (∀ (j : Nat) (c : CheckSpec), rsaAll[j]? = some c →
        ∃ v, rsaVerdict c.name orc keys i = .ok v ∧ a'.info.results[j]? = some (entryFor c v)) ∧
      (a'.info.weak = true ↔ ∃ e ∈ a'.info.results, e.result = true) ∧
      a'.info.version = Consts.libVersion) ∧
    (r = true ↔ ∃ a' ∈ arts', a'.info.weak = true) := by
  obtain ⟨tbl, htbl, hrun⟩ := full_unfold h
  have hlen : arts'.length = keys.length := by
    have := (C16.checkArtifacts_monotone .repaired _ _ _ _ arts' r hrun).1
    simpa using this
  obtain ⟨hkeys, hret⟩ := C16.checkAllRSA_fresh .repaired _ _ _ arts' r (fresh_all keys) hrun
  refine ⟨hlen, fun i a' ha' => ?_, hret⟩
  obtain ⟨hnames, hweak, hver⟩ := hkeys i a' ha'
  refine ⟨hnames, fun j c hc => ?_, hweak, hver⟩
  have hi : i < keys.length := by
    rw [← hlen]; exact (List.getElem?_eq_some_iff.1 ha').1
  obtain ⟨v, hv, htab⟩ := table_spec htbl j c hc i hi
  refine ⟨v, hv, ?_⟩
  rw [fresh_results (fresh_all keys) hrun i a' ha', List.getElem?_map, mkSteps_get, hc, ← htab]
  rfl

/-- the severity of an entry: the severity the registry documents for the check, except
CheckLowHammingWeight's SEVERITY_UNKNOWN when the key is flagged but not factored — and
CheckLowHammingWeight is the only check with that rule. -/
theorem entry_severity (c : CheckSpec) (hc : c ∈ rsaAll) (v : Verdict) :
    (entryFor c v).name = c.name ∧ (entryFor c v).result = v.positive ∧
    (entryFor c v).severity =
      if c.name = "CheckLowHammingWeight" ∧ v.positive = true ∧ v.factors = none
      then Consts.severityUnknown else c.severity := by
  have hflag : ∀ c ∈ rsaAll, c.unknownIfUnfactored = true ↔ c.name = "CheckLowHammingWeight" := by
    decide +kernel
  obtain ⟨h1, h2, h3⟩ := C16.severity_rule c v
  refine ⟨h1, h2, ?_⟩
  rw [h3]
  simp only [hflag c hc]

/-- the verdict of the CheckLowHammingWeight model on a key: positive iff the search says weak,
"not factored" (hence SEVERITY_UNKNOWN) iff the search returned no factors. -/
theorem lhw_verdict (orc : RsaOracles) (keys : List RsaKey) (i : Nat) (k : RsaKey)
    (hk : keys[i]? = some k) :
    rsaVerdict "CheckLowHammingWeight" orc keys i =
      .ok (ofKeyVerdict (vLhw k.n orc.lhwCutoff orc.lhwMaxSteps)) ∧
    ((ofKeyVerdict (vLhw k.n orc.lhwCutoff orc.lhwMaxSteps)).factors = none ↔
      (vLhw k.n orc.lhwCutoff orc.lhwMaxSteps).factors = []) := by
  have hl : singleModels.lookup "CheckLowHammingWeight" = some mLhw := rfl
  refine ⟨by simp only [rsaVerdict, hl, runSingle, hk]; rfl, ?_⟩
  exact attach_none

/-! ## C01 end to end: the attached factor records -/

/-- ★ After `CheckAllRSA` on FRESH keys, for every key `i` with modulus `n`: the records
N_FACTORS and N-1_FACTORS are readable (`GetAttachedFactors` does not raise); every value stored
under N_FACTORS is a natural number dividing `n`; every value stored under N-1_FACTORS divides
`n - 1`; a record that exists is non-empty; and if either record exists the key is marked weak
— for every oracle answer. -/
theorem checkAllRSA_factors_sound (orc : RsaOracles) (keys : List RsaKey)
    (arts' : List Artifact) (r : Bool) (h : checkAllRSAFull orc keys = .ok (arts', r))
    (i : Nat) (k : RsaKey) (a' : Artifact) (hk : keys[i]? = some k) (ha' : arts'[i]? = some a') :
    ∃ fn fm, getAttachedFactors a'.info nFactors = .ok fn ∧
      getAttachedFactors a'.info nm1Factors = .ok fm ∧
      (∀ x, MemO x fn → ∃ d : Nat, x = (d : Int) ∧ d ∣ k.n) ∧
      (∀ x, MemO x fm → ∃ d : Nat, x = (d : Int) ∧ d ∣ k.n - 1) ∧
      (fn ≠ none → ∃ x, MemO x fn) ∧ (fm ≠ none → ∃ x, MemO x fm) ∧
      ((fn ≠ none ∨ fm ≠ none) → a'.info.weak = true) := by
  obtain ⟨tbl, htbl, hrun⟩ := full_unfold h
  have hi : i < keys.length := (List.getElem?_eq_some_iff.1 hk).1
  have hbig := table_big2 htbl
  obtain ⟨fn, hfn, hmn, hnn⟩ := fresh_factors (fresh_all keys) (tableO_info htbl) hrun i a' ha' nFactors
  obtain ⟨fm, hfm, hmm, hnm⟩ := fresh_factors (fresh_all keys) (tableO_info htbl) hrun i a' ha' nm1Factors
  -- a positive verdict makes the key weak
  have hweak : ∀ s ∈ mkSteps rsaAll (tableO tbl) noInner, (s.verdict i).positive = true →
      a'.info.weak = true := by
    intro s hs hp
    obtain ⟨hkeys, _⟩ := C16.checkAllRSA_fresh .repaired _ _ _ arts' r (fresh_all keys) hrun
    rw [(hkeys i a' ha').2.1, fresh_results (fresh_all keys) hrun i a' ha']
    exact ⟨_, List.mem_map.2 ⟨s, hs, rfl⟩, hp⟩
  -- a record that exists comes from a positive verdict with a non-empty list
  have hex : ∀ (kk : String) (o : Option (List Int)),
      (o = none ↔ ∀ s ∈ mkSteps rsaAll (tableO tbl) noInner, ∀ fs,
        ¬ ((s.verdict i).positive = true ∧ (s.verdict i).factors = some (kk, fs))) →
      o ≠ none → ∃ s ∈ mkSteps rsaAll (tableO tbl) noInner, (s.verdict i).positive = true ∧
        ∃ fs, (s.verdict i).factors = some (kk, fs) ∧ fs ≠ [] := by
    intro kk o hiff hne
    by_contra hcon
    apply hne
    rw [hiff]
    intro s hs fs ⟨hp, hf⟩
    apply hcon
    obtain ⟨_, hv⟩ := step_verdict htbl hs i hi
    exact ⟨s, hs, hp, fs, hf, ((rsaVerdict_sound hbig hk hv).sound kk fs hf).2.1⟩
  refine ⟨fn, fm, hfn, hfm, ?_, ?_, ?_, ?_, ?_⟩
  · intro x hx
    obtain ⟨s, hs, _, fs, hf, hxs⟩ := (hmn x).1 hx
    obtain ⟨_, hv⟩ := step_verdict htbl hs i hi
    rcases ((rsaVerdict_sound hbig hk hv).sound _ fs hf).2.2 with ⟨_, hd⟩ | ⟨hname, _⟩
    · exact hd x hxs
    · exact absurd hname (by decide)
  · intro x hx
    obtain ⟨s, hs, _, fs, hf, hxs⟩ := (hmm x).1 hx
    obtain ⟨_, hv⟩ := step_verdict htbl hs i hi
    rcases ((rsaVerdict_sound hbig hk hv).sound _ fs hf).2.2 with ⟨hname, _⟩ | ⟨_, hd⟩
    · exact absurd hname (by decide)
    · exact hd x hxs
  · intro hne
    obtain ⟨s, hs, hp, fs, hf, hnil⟩ := hex nFactors fn hnn hne
    obtain ⟨x, hx⟩ := List.exists_mem_of_ne_nil fs hnil
    exact ⟨x, (hmn x).2 ⟨s, hs, hp, fs, hf, hx⟩⟩
  · intro hne
    obtain ⟨s, hs, hp, fs, hf, hnil⟩ := hex nm1Factors fm hnm hne
    obtain ⟨x, hx⟩ := List.exists_mem_of_ne_nil fs hnil
    exact ⟨x, (hmm x).2 ⟨s, hs, hp, fs, hf, hx⟩⟩
  · rintro (hne | hne)
    · obtain ⟨s, hs, hp, _⟩ := hex nFactors fn hnn hne
      exact hweak s hs hp
    · obtain ⟨s, hs, hp, _⟩ := hex nm1Factors fm hnm hne
      exact hweak s hs hp

/-- ★ after `CheckAllRSA` on FRESH keys the only attached records of a key are N_FACTORS and
N-1_FACTORS, each a readable factor set (no other record, no unparsable value). -/
theorem checkAllRSA_records (orc : RsaOracles) (keys : List RsaKey) (arts' : List Artifact)
    (r : Bool) (h : checkAllRSAFull orc keys = .ok (arts', r)) (i : Nat) (a' : Artifact)
    (ha' : arts'[i]? = some a') :
    (∀ p ∈ a'.info.attached, (p.1 = nFactors ∨ p.1 = nm1Factors) ∧ ∃ s, p.2 = .factors s) := by
  obtain ⟨tbl, htbl, hrun⟩ := full_unfold h
  have hlen : arts'.length = keys.length := (checkAllRSA_entries orc keys arts' r h).1
  have hi : i < keys.length := by
    rw [← hlen]; exact (List.getElem?_eq_some_iff.1 ha').1
  have hk : keys[i]? = some keys[i] := List.getElem?_eq_getElem hi
  have hbig := table_big2 htbl
  unfold checkAllRSA at hrun
  obtain ⟨pw, _, _⟩ := checkArtifacts_spec hrun
  have hact := pw.get i freshArt a' (fresh_get hi) ha'
  rw [Nat.zero_add] at hact
  have happly : applyOps Consts.libVersion TestInfo.empty
      (allOps .repaired Consts.libVersion ecAll (mkSteps rsaAll (tableO tbl) noInner)
        (statics (keys.map fun _ => freshArt)) i freshArt) = .ok a'.info := hact.2
  have hfree := allOps_infoFree .repaired Consts.libVersion ecAll
    (mkSteps rsaAll (tableO tbl) noInner) (statics (keys.map fun _ => freshArt)) i freshArt
    (fun s hs => by
      obtain ⟨j, c, hc, rfl⟩ := mkSteps_mem hs
      exact ⟨(rsaAll_flags c (List.mem_of_getElem? hc)).1, fun i' => tableO_info htbl j i'⟩)
  obtain ⟨t, ht, hnoraw⟩ := applyOps_noRaw Consts.libVersion noRaw_empty hfree
  rw [happly] at ht
  cases ht
  intro p hp
  refine ⟨?_, hnoraw p hp⟩
  rcases applyOps_names happly hfree p.1 (List.mem_map.2 ⟨p, hp, rfl⟩) with h0 | ⟨fs, hfs⟩
  · cases h0
  · obtain ⟨s, hs, _, hfac⟩ := (attachedUnder_allOps _ _ _ _ _ _ _ _ fs (steps_flags _)).1
      (mem_attachedUnder hfs)
    obtain ⟨_, hv⟩ := step_verdict htbl hs i hi
    rcases ((rsaVerdict_sound hbig hk hv).sound _ fs hfac).2.2 with ⟨hn, _⟩ | ⟨hn, _⟩
    · exact Or.inl hn
    · exact Or.inr hn

/-- which check records under which name: only CheckGCDN1 writes N-1_FACTORS and it writes
nothing else; no RSA check calls AttachInfo. -/
theorem record_names (orc : RsaOracles) (keys : List RsaKey) (i : Nat) (k : RsaKey)
    (hbig : ∀ k ∈ keys, 2 ≤ k.n) (hk : keys[i]? = some k) (name : String) (v : Verdict)
    (h : rsaVerdict name orc keys i = .ok v) :
    v.info = none ∧ ∀ kk fs, v.factors = some (kk, fs) →
      (kk = nm1Factors ↔ name = "CheckGCDN1") ∧ (kk = nFactors ∨ kk = nm1Factors) := by
  refine ⟨(rsaVerdict_sound hbig hk h).info, fun kk fs hf => ?_⟩
  unfold rsaVerdict at h
  split at h
  · rename_i m hm
    have hmem := lookup_mem hm
    simp only [runSingle, hk] at h
    have hne : name ≠ "CheckGCDN1" := by
      intro he; subst he; cases hm
    -- single checks attach under N_FACTORS only
    have hkk : kk = nFactors := by
      simp only [singleModels, List.mem_cons, List.not_mem_nil, or_false, Prod.mk.injEq] at hmem
      rcases hmem with ⟨_, rfl⟩ | ⟨_, rfl⟩ | ⟨_, rfl⟩ | ⟨_, rfl⟩ | ⟨_, rfl⟩ | ⟨_, rfl⟩ |
        ⟨_, rfl⟩ | ⟨_, rfl⟩ | ⟨_, rfl⟩ | ⟨_, rfl⟩ | ⟨_, rfl⟩ | ⟨_, rfl⟩ | ⟨_, rfl⟩ | ⟨_, rfl⟩ |
        ⟨_, rfl⟩
      · cases h; cases hf
      · cases h; cases hf
      · obtain ⟨b, _, rfl⟩ := map_ok h; cases hf
      · obtain ⟨b, _, rfl⟩ := map_ok h; cases hf
      · cases h; exact (attach_some hf).1
      · obtain ⟨b, _, rfl⟩ := map_ok h; exact (attach_some hf).1
      · cases h; cases hf
      · obtain ⟨b, _, rfl⟩ := map_ok h; exact (attach_some hf).1
      · obtain ⟨b, _, rfl⟩ := map_ok h; exact (attach_some hf).1
      · obtain ⟨b, _, rfl⟩ := map_ok h; exact (attach_some hf).1
      · cases h; exact (attach_some hf).1
      · cases h; exact (attach_some hf).1
      · obtain ⟨b, _, rfl⟩ := map_ok h; exact (attach_some hf).1
      · obtain ⟨b, _, rfl⟩ := map_ok h; exact (attach_some hf).1
      · obtain ⟨b, _, rfl⟩ := map_ok h; exact (attach_some hf).1
    subst hkk
    exact ⟨⟨fun he => absurd he (by decide), fun he => absurd he hne⟩, Or.inl rfl⟩
  · split at h
    · rename_i hs m hm
      have hmem := lookup_mem hm
      unfold runAggregate at h
      split at h
      · cases h
      · rename_i row hrow
        have hv := nth_ok h
        simp only [aggregateModels, List.mem_cons, List.not_mem_nil, or_false,
          Prod.mk.injEq] at hmem
        rcases hmem with ⟨rfl, rfl⟩ | ⟨rfl, rfl⟩
        · have := gcd_row _ keys hbig row hrow
          subst this
          simp only [List.getElem?_map, hk, Option.map_some, Option.some.injEq] at hv
          subst hv
          have := (attach_some hf).1
          subst this
          exact ⟨⟨fun he => absurd he (by decide), fun he => absurd he (by decide)⟩, Or.inl rfl⟩
        · have := gcdn1_row _ keys hbig row hrow
          subst this
          simp only [List.getElem?_map, hk, Option.map_some, Option.some.injEq] at hv
          subst hv
          have := (attach_some hf).1
          subst this
          exact ⟨⟨fun _ => rfl, fun _ => rfl⟩, Or.inr rfl⟩
    · cases h

/-- the last clause of C01 in full: whenever N_FACTORS is recorded for a key, some recorded
value is a proper divisor, unless the modulus divides another (different) modulus of the batch.
NOT asserted: it is proved below for the records of the gcd-derived checks and of CheckGCD
(`checkAllRSA_factors_proper_partial`).  For CheckFermat, CheckHighAndLowBitsEqual,
CheckLowHammingWeight only `x * y = n` is proved (C01 `check_fermat`, `check_hlbe`,
`check_lhw`): the trivial pair `(n, 1)` would need e.g. a Fermat step bound of about `n / 2`
(unreachable for the default 100000 on moduli ≥ 2^63, but the statement quantifies over every
constructor parameter).  The hypothesis on the generator oracle is necessary
(`properClause_needs_generator`). -/
def ProperClause : Prop :=
  ∀ (orc : RsaOracles) (keys : List RsaKey) (arts' : List Artifact) (r : Bool),
    (∀ i seed bits, 1 < (orc.keypairGen i seed bits).1 ∧ 1 < (orc.keypairGen i seed bits).2) →
    checkAllRSAFull orc keys = .ok (arts', r) →
    ∀ (i : Nat) (k : RsaKey) (a' : Artifact), keys[i]? = some k → arts'[i]? = some a' →
      ∀ s, getAttachedFactors a'.info nFactors = .ok (some s) →
        (∃ x ∈ s, 1 < x ∧ x < (k.n : Int)) ∨ ∃ m ∈ keys.map (·.n), m ≠ k.n ∧ k.n ∣ m

/-- ★ proper-divisor clause, proved part: if one of CheckContinuedFractions, CheckBitPatterns,
CheckPermutedBitPatterns, CheckPollardpm1, CheckUnseededRand, CheckSmallUpperDifferences,
CheckGCD records factors for key `i`, then afterwards N_FACTORS of that key contains them and
contains a proper divisor of the modulus — unless (CheckGCD only) the modulus divides another,
different modulus of the batch. -/
theorem checkAllRSA_factors_proper_partial (orc : RsaOracles) (keys : List RsaKey)
    (arts' : List Artifact) (r : Bool) (h : checkAllRSAFull orc keys = .ok (arts', r))
    (i : Nat) (k : RsaKey) (a' : Artifact) (hk : keys[i]? = some k) (ha' : arts'[i]? = some a')
    (c : CheckSpec) (hc : c ∈ rsaAll) (hp : c.name ∈ properChecks) (v : Verdict)
    (hv : rsaVerdict c.name orc keys i = .ok v) (hpos : v.positive = true) (fs : List Int)
    (hf : v.factors = some (nFactors, fs)) :
    ∃ s, getAttachedFactors a'.info nFactors = .ok (some s) ∧ (∀ x ∈ fs, x ∈ s) ∧
      ((∃ x ∈ s, 1 < x ∧ x < (k.n : Int)) ∨ ∃ m ∈ keys.map (·.n), m ≠ k.n ∧ k.n ∣ m) := by
  obtain ⟨tbl, htbl, hrun⟩ := full_unfold h
  have hi : i < keys.length := (List.getElem?_eq_some_iff.1 hk).1
  have hbig := table_big2 htbl
  obtain ⟨fn, hfn, hmn, hnn⟩ := fresh_factors (fresh_all keys) (tableO_info htbl) hrun i a' ha' nFactors
  obtain ⟨j, hj⟩ := List.mem_iff_getElem?.1 hc
  obtain ⟨v', hv', htab⟩ := table_spec htbl j c hj i hi
  rw [hv] at hv'
  cases hv'
  have hstep := step_of_check (tbl := tbl) hj
  have hin : ∀ x ∈ fs, MemO x fn := fun x hx =>
    (hmn x).2 ⟨_, hstep, by show (tableO tbl j i).positive = true; rw [htab]; exact hpos,
      fs, by show (tableO tbl j i).factors = _; rw [htab]; exact hf, hx⟩
  cases fn with
  | none =>
    have hne := ((rsaVerdict_sound hbig hk hv).sound _ fs hf).2.1
    obtain ⟨x, hx⟩ := List.exists_mem_of_ne_nil fs hne
    obtain ⟨s, hs, _⟩ := hin x hx
    cases hs
  | some s =>
    have hsub : ∀ x ∈ fs, x ∈ s := fun x hx => by
      obtain ⟨s', hs', hx'⟩ := hin x hx
      cases hs'
      exact hx'
    refine ⟨s, hfn, hsub, ?_⟩
    rcases rsaVerdict_proper hp hbig hk hv fs hf with ⟨x, hx, h1, h2⟩ | hnest
    · exact Or.inl ⟨x, hsub x hx, h1, h2⟩
    · exact Or.inr hnest

/-! ## C17 end to end: the single checks judge keys individually -/

/-- ★ Two runs of `CheckAllRSA` — different batches, sizes, positions, neighbours, per-key
oracle answers of the OTHER keys — that agree on one key `(n, e)`, on the oracle answers for
that key (its LLL bases, cube root, candidate list, digest, generator) and on the state of the
singleton check objects give that key the SAME entries for the fifteen single checks (entries
`0 … 14` of its result list), and the same single-check verdicts incl. attached factors. -/
theorem checkAllRSA_single_independent (orc orc' : RsaOracles) (keys keys' : List RsaKey)
    (arts1 arts2 : List Artifact) (r1 r2 : Bool)
    (h1 : checkAllRSAFull orc keys = .ok (arts1, r1))
    (h2 : checkAllRSAFull orc' keys' = .ok (arts2, r2))
    (i i' : Nat) (k : RsaKey) (hk : keys[i]? = some k) (hk' : keys'[i']? = some k)
    (hg : orc.toRsaGlobals = orc'.toRsaGlobals) (ho : orc.forKey i = orc'.forKey i')
    (a1 a2 : Artifact) (ha1 : arts1[i]? = some a1) (ha2 : arts2[i']? = some a2)
    (j : Nat) (hj : j < Consts.rsaSingleChecks.length) :
    a1.info.results[j]? = a2.info.results[j]? ∧
    ∃ c, rsaAll[j]? = some c ∧ rsaVerdict c.name orc keys i = rsaVerdict c.name orc' keys' i' := by
  have hsingle : ∀ j < Consts.rsaSingleChecks.length,
      (rsaAll[j]?).map (fun c => (singleModels.lookup c.name).isSome) = some true := by
    decide +kernel
  have hthis := hsingle j hj
  cases hc : rsaAll[j]? with
  | none => rw [hc] at hthis; cases hthis
  | some c =>
    rw [hc] at hthis
    simp only [Option.map_some, Option.some.injEq] at hthis
    obtain ⟨m, hm⟩ := Option.isSome_iff_exists.1 hthis
    have heq : rsaVerdict c.name orc keys i = rsaVerdict c.name orc' keys' i' := by
      simp only [rsaVerdict, hm, runSingle, hk, hk', hg, ho]
    obtain ⟨_, he1, _⟩ := checkAllRSA_entries orc keys arts1 r1 h1
    obtain ⟨_, he2, _⟩ := checkAllRSA_entries orc' keys' arts2 r2 h2
    obtain ⟨v1, hv1, hr1⟩ := (he1 i a1 ha1).2.1 j c hc
    obtain ⟨v2, hv2, hr2⟩ := (he2 i' a2 ha2).2.1 j c hc
    rw [heq, hv2] at hv1
    cases hv1
    exact ⟨by rw [hr1, hr2], c, rfl, heq⟩

/-! ## Non-vacuity: concrete runs of the whole model (kernel-evaluated) -/

/-- oracles for the examples: no LLL answers, no listed PRNG outputs, empty deny list and table,
small search budgets. -/
def orcEx : RsaOracles :=
  { pollardM := 2 ^ 10, denylist := [], keypairTable := [], fermatMaxSteps := 50, lhwCutoff := 20,
    lhwMaxSteps := 50,
    red := fun _ _ => [], cbrt := fun _ => 2642245, unseeded := fun _ => [],
    sha1hex := fun _ => [], keypairGen := fun _ _ _ => (0, 0) }

/-- two 65-bit moduli sharing the prime 4294967311, the second with exponent 3. -/
def keysEx : List RsaKey :=
  [⟨4294967311 * 4294968317, 65537⟩, ⟨4294967311 * 4295967341, 3⟩]

/-- the hypotheses of `checkAllRSA_total` are satisfiable. -/
example : WF orcEx keysEx where
  big := by decide
  red := fun i d row h => by simp [orcEx] at h
  unseeded := fun i c h => by simp [orcEx] at h
  table := fun p h => by simp [orcEx] at h

/-- what a run reports: per key the weak flag, the names of the positive entries, the attached
records; and the return value. -/
def view (r : Except PyErr (List Artifact × Bool)) :
    Except PyErr (List (Bool × List String × List (String × AttachedValue)) × Bool) :=
  r.map fun p => (p.1.map fun a =>
    (a.info.weak, (a.info.results.filter (·.result)).map (·.name), a.info.attached), p.2)

set_option synthInstance.maxSize 1024 in
/-- the shared prime is found by CheckGCD (and the close 32-bit primes by CheckFermat; the tiny
search budget of `orcEx` makes CheckLowHammingWeight "suspect" the first key): both keys weak,
factors recorded under N_FACTORS, return value True. -/
example : view (checkAllRSAFull orcEx keysEx) =
    .ok ([(true, ["CheckSizes", "CheckFermat", "CheckContinuedFractions", "CheckLowHammingWeight",
                  "CheckGCD"],
            [("N_FACTORS", .factors [4294967311, 4294968317])]),
          (true, ["CheckSizes", "CheckExponents", "CheckFermat", "CheckContinuedFractions",
                  "CheckGCD"],
            [("N_FACTORS", .factors [4294967311, 4295967341])])], true) := by
  decide +kernel

/-- the empty batch returns False. -/
example : checkAllRSAFull orcEx [] = .ok ([], false) := by decide +kernel

/-- a 63-bit modulus makes the entry point raise ValueError. -/
example : checkAllRSAFull orcEx [⟨2 ^ 62 + 1, 65537⟩] = .error .valueError := by decide +kernel

/-- `ProperClause` without its hypothesis on the generator oracle. -/
def ProperClauseAnyGenerator : Prop :=
  ∀ (orc : RsaOracles) (keys : List RsaKey) (arts' : List Artifact) (r : Bool),
    checkAllRSAFull orc keys = .ok (arts', r) →
    ∀ (i : Nat) (k : RsaKey) (a' : Artifact), keys[i]? = some k → arts'[i]? = some a' →
      ∀ s, getAttachedFactors a'.info nFactors = .ok (some s) →
        (∃ x ∈ s, 1 < x ∧ x < (k.n : Int)) ∨ ∃ m ∈ keys.map (·.n), m ≠ k.n ∧ k.n ∣ m

set_option synthInstance.maxSize 1024 in
/-- a generator oracle that answers `(1, n)` for a table hit makes CheckKeypairDenylist record
`{1, n}` (the code verifies `p * q == n` only): the proper-divisor clause needs the hypothesis
that the generator returns numbers above 1 (the real one returns two primes). -/
theorem properClause_needs_generator : ¬ ProperClauseAnyGenerator := by
  intro hcl
  let n : Nat := 2 ^ 65 + 13      -- 66 bits: the keypair check consults the generator for even sizes only (D21)
  let orc : RsaOracles :=
    { orcEx with keypairTable := [(n >>> 2, [0])], keypairGen := fun _ _ _ => (1, n) }
  have hrun : view (checkAllRSAFull orc [⟨n, 65537⟩]) =
      .ok ([(true, ["CheckSizes", "CheckContinuedFractions", "CheckKeypairDenylist"],
            [("N_FACTORS", .factors [1, n])])],
        true) := by decide +kernel
  cases hr : checkAllRSAFull orc [⟨n, 65537⟩] with
  | error e => rw [hr] at hrun; cases hrun
  | ok p =>
    obtain ⟨arts', r⟩ := p
    rw [hr] at hrun
    simp only [view, Except.map, Except.ok.injEq, Prod.mk.injEq] at hrun
    cases arts' with
    | nil => simp at hrun
    | cons a' rest =>
      have hatt : a'.info.attached = [("N_FACTORS", .factors [1, (n : Int)])] := by
        have := hrun.1
        simp only [List.map_cons, List.cons.injEq, Prod.mk.injEq] at this
        exact this.1.2.2
      have hget : getAttachedFactors a'.info nFactors = .ok (some [1, (n : Int)]) := by
        simp [getAttachedFactors, getAttachedInfo, hatt, nFactors]
      rcases hcl orc [⟨n, 65537⟩] (a' :: rest) r hr 0 ⟨n, 65537⟩ a' rfl rfl _ hget with
        ⟨x, hx, h1, h2⟩ | ⟨m, hm, hne, _⟩
      · simp only [List.mem_cons, List.not_mem_nil, or_false] at hx
        rcases hx with rfl | rfl
        · exact absurd h1 (by decide)
        · exact absurd h2 (by simp)
      · simp only [List.map_cons, List.map_nil, List.mem_cons, List.not_mem_nil, or_false] at hm
        exact hne hm

end Paranoid.RsaAll
