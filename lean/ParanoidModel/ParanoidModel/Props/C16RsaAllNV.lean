/-
Props/C16RsaAllNV.lean — non-vacuity of `RsaAll.WF` (hypothesis of `checkAllRSA_total`) with
NON-empty oracles: LLL answers with rows, a non-empty candidate list of CheckUnseededRand, a keypair
table with entries (one of which is hit), a generator that answers.  (The inhabitant in
Props/C16RsaAll.lean has `red := fun _ _ => []`, `unseeded := fun _ => []` and an empty table, so
three of the four fields of `WF` hold vacuously there.)
-/
import ParanoidModel.Props.C16RsaAll
namespace Paranoid.RsaAll
open Paranoid

/-- two primes below `2^33` whose product has 66 bits (an EVEN size: since D21 the keypair check
consults table and generator for even sizes only). -/
def pNV : Nat := 7589934593
def qNV : Nat := 8089934621
def nNV : Nat := pNV * qNV

/-- oracles with content: every `lll.reduce` call returns the two rows `[3, 5]`, `[7, 11, 13]`; the
candidate sequence of CheckUnseededRand for key 0 is `[12345, p]`, for the other keys `[99]`; the
keypair table has the prefix of `nNV` (metadata `05|01 07`, i.e. seed byte 0 = 5, byte 1 = 7) and
another entry; the generator returns `(p, q)`. -/
def orcNV : RsaOracles :=
  { pollardM := 2 ^ 10, denylist := [['a', 'b']],
    keypairTable := [(nNV >>> 2, [5, 1, 7]), (12345, [9])],
    fermatMaxSteps := 50, lhwCutoff := 20, lhwMaxSteps := 50,
    red := fun _ _ => [[3, 5], [7, 11, 13]], cbrt := fun _ => 2642245,
    unseeded := fun i => if i = 0 then [12345, pNV] else [99],
    sha1hex := fun _ => ['0'], keypairGen := fun _ _ _ => (pNV, qNV) }

def keysNV : List RsaKey := [⟨nNV, 65537⟩, ⟨4294967311 * 4295967341, 3⟩]

/-- ★ `WF` is inhabited with non-empty LLL rows, candidate lists and table — so
`checkAllRSA_total` applies to a call in which none of its hypotheses is vacuous. -/
theorem wf_nonempty_oracles : WF orcNV keysNV where
  big := by decide
  red := fun i d row h => by
    simp only [orcNV, List.mem_cons, List.not_mem_nil, or_false] at h
    rcases h with rfl | rfl <;> decide
  unseeded := fun i c h => by
    simp only [orcNV] at h
    split at h
    · simp only [List.mem_cons, List.not_mem_nil, or_false] at h
      rcases h with rfl | rfl <;> decide
    · simp only [List.mem_cons, List.not_mem_nil, or_false] at h
      subst h; decide
  table := fun p h => by
    simp only [orcNV, List.mem_cons, List.not_mem_nil, or_false] at h
    rcases h with rfl | rfl
    · exact ⟨_, rfl⟩
    · exact ⟨_, rfl⟩

set_option synthInstance.maxSize 1024 in
/-- … and the oracle answers are CONSUMED by the run: the candidate `p` makes CheckUnseededRand
record the factors, the table hit plus the generator's `(p, q)` makes CheckKeypairDenylist record
them; the LLL rows are read by CheckBitPatterns / CheckPermutedBitPatterns (no finding). -/
example : view (checkAllRSAFull orcNV keysNV) =
    .ok ([(true, ["CheckSizes", "CheckUnseededRand", "CheckKeypairDenylist"],
            [("N_FACTORS", .factors [7589934593, 8089934621])]),
          (true, ["CheckSizes", "CheckExponents", "CheckFermat", "CheckContinuedFractions"],
            [("N_FACTORS", .factors [4294967311, 4295967341])])], true) := by
  decide +kernel

end Paranoid.RsaAll
