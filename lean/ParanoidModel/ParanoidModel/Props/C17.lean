/-
Props/C17.lean — "A verdict does not depend on batch neighbours, batch order or earlier calls".

Single checks: the bookkeeping layer `runCheck` treats artefacts pointwise
(`runCheckFrom_pointwise`); `single_check_alone_eq_batch` is the corollary for a verdict that is
ASSUMED to be a function of the artefact alone. That a given REAL check has this shape is proved
per check elsewhere (RSA single checks: `RsaAll.checkAllRSA_single_independent`; CheckValidECKey /
CheckWeakCurve: Props/C17Ec.lean; nonce checks: `sig_verdict_independent`) or is the content of the
correspondence (harness/corr/c17.py: each real check alone / in random batches / after unrelated
calls). It is FALSE for CheckWeakECPrivateKey (Props/C17Ec.lean).
Joint checks: permutation-equivariance and healthy-addition invariance of BatchGCD (C03) and of
the boolean verdicts of CheckECKeySmallDifference (Props/C17Ec.lean; its recorded evidence is
order-dependent); the guaranteed part of the discrete-log search survives any history (C10,
`history_monotone`).
-/
import ParanoidModel.Props.C03
import ParanoidModel.Props.C16
import ParanoidModel.Props.C10
import ParanoidModel.Props.C02S
namespace Paranoid.C17
open Paranoid

/-- position `k` of the result of a single check on a batch is `checkOne` on the `k`-th
artefact with the `k`-th verdict — nothing else of the batch enters. -/
theorem runCheckFrom_pointwise (ver : String) (c : CheckSpec) (v : Nat → Verdict) :
    ∀ (i : Nat) (arts arts' : List Artifact) (w : Bool),
      runCheckFrom ver c v i arts = .ok (arts', w) →
      ∀ (k : Nat) (a : Artifact), arts[k]? = some a →
        ∃ a' wk, checkOne ver c a (v (i + k)) = .ok (a', wk) ∧ arts'[k]? = some a'
  | _, [], _, _, _, k, a, ha => by simp at ha
  | i, x :: xs, arts', w, h, k, a, ha => by
    unfold runCheckFrom at h
    split at h
    · simp at h
    · rename_i a0 w0 h0
      split at h
      · simp at h
      · rename_i as' w' hrest
        simp only [Except.ok.injEq, Prod.mk.injEq] at h
        obtain ⟨rfl, _⟩ := h
        cases k with
        | zero =>
          simp only [List.getElem?_cons_zero, Option.some.injEq] at ha
          subst ha
          exact ⟨a0, w0, by simpa using h0, by simp⟩
        | succ k =>
          simp only [List.getElem?_cons_succ] at ha
          obtain ⟨a', wk, h1, h2⟩ := runCheckFrom_pointwise ver c v (i + 1) xs as' w' hrest k a ha
          refine ⟨a', wk, ?_, by simpa using h2⟩
          rw [show i + (k + 1) = i + 1 + k by omega]
          exact h1

/-- Bookkeeping half of "single checks judge artefacts individually".  IF the verdict handed to
`runCheck` is a function `f` of the artefact alone (this is the HYPOTHESIS of the statement, built
into the verdict argument — nothing here says that a real check has this shape), then in any batch,
at any position, the annotated artefact equals the result of `runCheck` on the singleton batch: the
`SetTestResult` / `AttachFactors` / `AttachInfo` layer does not leak between artefacts.  That the
verdict of a particular check IS a function of the artefact alone is a separate statement per check:
proved end to end for the fifteen RSA single checks under equal singleton state and equal per-key
oracle answers (`RsaAll.checkAllRSA_single_independent`), for CheckValidECKey and CheckWeakCurve
(`C17Ec.checkAllEC_individual_entries_local`), for the ECDSA nonce checks as a function of (curve,
own issuer key, guess list of the curve group) (`sig_verdict_independent`); it is FALSE for
CheckWeakECPrivateKey, whose table size depends on the number of keys of the batch
(`C17Ec.weakKey_verdict_depends_on_batch`). -/
theorem single_check_alone_eq_batch (ver : String) (c : CheckSpec) (f : Artifact → Verdict)
    (arts arts' : List Artifact) (w : Bool)
    (h : runCheck ver c (fun i => match arts[i]? with | some a => f a | none => ⟨false, none, none⟩) arts
          = .ok (arts', w))
    (k : Nat) (a : Artifact) (ha : arts[k]? = some a) :
    ∃ a' wk, runCheck ver c (fun _ => f a) [a] = .ok ([a'], wk) ∧ arts'[k]? = some a' := by
  obtain ⟨a', wk, h1, h2⟩ := runCheckFrom_pointwise ver c _ 0 arts arts' w h k a ha
  simp only [Nat.zero_add, ha] at h1
  refine ⟨a', wk || false, ?_, h2⟩
  unfold runCheck runCheckFrom
  rw [h1]
  simp [runCheckFrom]

/-- joint check (shared factors): permuting the batch permutes the gcds. -/
theorem gcd_perm (values values' : List Nat) (other : Option Nat)
    (hpos : ∀ v ∈ values, 0 < v) (hp : values.Perm values') :
    ∃ r r', batchGCD values other = .ok r ∧ batchGCD values' other = .ok r' ∧
      (values.zip r).Perm (values'.zip r') :=
  C03.perm_equivariant values values' other hpos hp

/-- joint check: adding a healthy (coprime) modulus changes nothing for the others. -/
theorem gcd_add_healthy (values : List Nat) (w : Nat) (other : Option Nat)
    (hpos : ∀ v ∈ values, 0 < v) (hw : 0 < w) (hc : ∀ v ∈ values, Nat.Coprime v w) :
    ∃ g r, batchGCD values other = .ok r ∧ batchGCD (w :: values) other = .ok (g :: r) :=
  C03.coprime_key_irrelevant values w other hpos hw hc

/-- joint check: the gcds are a function of the SET of moduli — duplicates, order and any
re-batching with the same set give the same per-modulus answer. -/
theorem gcd_set_function (values values' : List Nat) (other : Option Nat)
    (hpos : ∀ v ∈ values, 0 < v) (hset : ∀ x, x ∈ values' ↔ x ∈ values) :
    ∃ f : Nat → Nat, batchGCD values other = .ok (values.map f) ∧
      batchGCD values' other = .ok (values'.map f) :=
  C03.same_set_same_function values values' other hpos hset

/-! ### EC keys: the cached discrete-log table (state of the curve singletons) -/

section ec
open Paranoid.Ec Paranoid.Bsgs WeierstrassCurve
variable (c : Curve) [Fact (Nat.Prime c.p)]

/-- The part of "anything flagged in a fresh process is also flagged after arbitrary earlier work"
that is proved for `BatchDL` — and ONLY this: after any sequence of earlier BatchDL /
ExtendedBatchDL / BatchDLOfDifferences calls on the same curve object (none of which raised), a
`BatchDL` call on on-curve points does not raise, leaves a reachable table, and every REDUCED
point `x • G` with `0 ≤ x < n` (the range the function guarantees) gets SOME log `v` with
`v • G = P`.  NOT stated: (i) that `v = x` (`C10.batchDL_complete` gives it under a no-wrap
condition); (ii) anything about logs outside `[0, n)` that a fresh call happens to find — for an
arbitrary split value `m` such a log CAN be lost after earlier work
(`C10.history_superset_fails_for_some_split`; with the real `m = int(sqrt(ts))` no loss was
observed, search only); (iii) ExtendedBatchDL / BatchDLOfDifferences and the two checks built on
them — for those the same "guaranteed part survives any history" statements are
`C10.extended_complete` / `C10.diff_complete` (any `StateOK` state, `C10.history_stateOK`) and, at
check level, `C17Ec.weakKey_guaranteed_any_context`, `C17Ec.smallDiff_guaranteed_any_context`;
(iv) the converse: a later call can flag MORE (`C17Ec.smallDiff_verdict_depends_on_history`). -/
theorem dl_history_monotone (hv : ValidCurve c) (ops : List Bsgs.Op) (st : EcState)
    (h : Bsgs.runOps c (StateG.init listImpl) ops = .ok st) (points : List Pt)
    (hpts : ∀ P ∈ points, onCurve c P = true) (n ts m : Nat) (hts : 1 ≤ ts)
    (hm : st.tableSize < ts → 1 ≤ m) :
    ∃ res st', batchDL c st points n ts m = .ok (res, st') ∧ TableIs c st' ∧
      List.Forall₂ (fun P r => ∀ x : Nat, Reduced c P → x < n → toPoint c P = x • Gp c →
        ∃ v : Int, r = some v ∧ v • Gp c = toPoint c P) points res :=
  C10.history_monotone c hv ops st h points hpts n ts m hts hm

end ec

/-! ### ECDSA signature checks -/

section ecdsa
open Paranoid.EcdsaChecks

/-- the verdict of a signature is a function of (its curve, its own issuer key tuple, the list of
guesses of its curve group): two runs — different batches, positions, orders, check kinds, cache
contents, earlier or later in the process — agree on signatures that agree on these three. -/
theorem sig_verdict_independent
    (k k' : Kind) (O O' : Nat → GroupOracle) (factory factory' : EcdsaChecks.Factory)
    (arts arts' : List Sig) (res res' : CheckResult)
    (hF : FactoryOK factory) (hR : FactoryReduced factory) (hnd : (factory.map Prod.fst).Nodup)
    (hF' : FactoryOK factory') (hR' : FactoryReduced factory') (hnd' : (factory'.map Prod.fst).Nodup)
    (h : check k O factory arts = .ok res) (h' : check k' O' factory' arts' = .ok res')
    (bi bi' : Nat) (s s' : Sig) (hs : arts[bi]? = some s) (hs' : arts'[bi']? = some s')
    (obj obj' : CurveObj) (hobj : (s.curve, some obj) ∈ factory) (hobj' : (s'.curve, some obj') ∈ factory')
    (hcurve : obj.curve = obj'.curve) (hkey : s.key = s'.key)
    (hgl : (O s.curve).guessList = (O' s'.curve).guessList) :
    verdictOf res.writes bi = verdictOf res'.writes bi' :=
  C02S.verdict_independent k k' O O' factory factory' arts arts' res res' hF hR hnd hF' hR' hnd'
    h h' bi bi' s s' hs hs' obj obj' hobj hobj' hcurve hkey hgl

/-- grouping signatures by issuer key is a partition of the batch indices (results are written
back by index). -/
theorem issuer_groups_partition (sigs : List Sig) :
    ((mapIssuerSigIndexes sigs).map Prod.snd).flatten.Perm (List.range sigs.length) :=
  (C02S.mapIssuer_partition sigs).2.2.2.2

end ecdsa

end Paranoid.C17
