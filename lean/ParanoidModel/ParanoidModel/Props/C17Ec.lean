/-
Props/C17Ec.lean — C17 ("a verdict does not depend on batch neighbours, batch order or earlier
calls") for the four EC key checks, stated about the check models of Model/Bsgs.lean /
Model/EcAll.lean (tied to the real code by harness/corr/c10.py, c16.py, ecall.py).

What holds, and what does NOT (each negative statement has a kernel-checked witness here and a run
of the real code, quoted in the docstring):

* CheckValidECKey, CheckWeakCurve: the verdict of a key is a function of that key alone — batch,
  position, order, earlier calls are irrelevant (`checkValidECKey_local`, `checkWeakCurve_local`,
  end to end `checkAllEC_individual_entries_local`).
* CheckWeakECPrivateKey (registered as a SINGLE check in ec_single_checks.py): the verdict of a key
  is NOT a function of the key alone — the table size is `int(sqrt(2**32 · 36 · len(keys)))`, so a
  private key just outside the documented families can be found in a larger batch and missed alone
  (`weakKey_verdict_depends_on_batch`).  What IS invariant: whatever is flagged is correct whatever
  the neighbours (`weakKey_sound_any_batch`), and the documented families (32-bit value shifted by
  a multiple of 8 bits, 32-bit word repeated) are flagged with a congruent log in EVERY batch, from
  EVERY reachable state (`weakKey_guaranteed_any_context`).
* CheckECKeySmallDifference (joint): the BOOLEAN verdicts are exactly characterised
  (`smallDiff_flag_iff`: flagged ⇔ some other key of the batch on the same curve differs by
  `k • G`, `0 < |k| < V`, `V` = number of multiples in the table in use), hence invariant under
  permutation and duplication of the batch (`smallDiff_flags_same_set`, `smallDiff_flags_perm`) and
  under adding keys that are not within `V` of the key (`smallDiff_add_healthy`).  The recorded
  EVIDENCE (which partner, which `k`) is the last hit in scan order and depends on the batch order
  (`smallDiff_evidence_depends_on_order`); `V` depends on the cached table, so a pair at distance
  `≥ max_diff` that is not flagged in a fresh process can be flagged after earlier work
  (`smallDiff_verdict_depends_on_history`) — never the other way round
  (`smallDiff_guaranteed_any_context`).
-/
import ParanoidModel.Props.C16EcAll
import ParanoidModel.Proofs.BsgsDiffExactCheck
import ParanoidModel.Proofs.EcPrivKey
namespace Paranoid.C17Ec
open Paranoid Paranoid.Ec Paranoid.Bsgs Paranoid.EcAll WeierstrassCurve

/-! ## CheckValidECKey, CheckWeakCurve: functions of the key alone -/

/-- ★ CheckValidECKey: in ANY two batches the verdict of the same key is the same, and it is the
verdict of checking the key alone. -/
theorem checkValidECKey_local (f : Factory) (keys keys' : List ECKey)
    (row row' : List Bsgs.KeyVerdict) (h : checkValidECKey f keys = .ok row)
    (h' : checkValidECKey f keys' = .ok row') (n n' : Nat) (k : ECKey) (hk : keys[n]? = some k)
    (hk' : keys'[n']? = some k) :
    row[n]? = row'[n']? ∧ ∃ v, checkValidECKey f [k] = .ok [v] ∧ row[n]? = some v := by
  obtain ⟨v, hv, hkv⟩ := forall₂_idx (forE_ok h) n k hk
  obtain ⟨v', hv', hkv'⟩ := forall₂_idx (forE_ok h') n' k hk'
  rw [hkv] at hkv'; cases hkv'
  refine ⟨by rw [hv, hv'], v, ?_, hv⟩
  simp only [checkValidECKey, forE, hkv]

/-- ★ CheckWeakCurve: the verdict at a position is `weakCurveOne` of the key at that position — the
verdict of checking the key alone. -/
theorem checkWeakCurve_local (f : Factory) (keys : List ECKey) (n : Nat) (k : ECKey)
    (hk : keys[n]? = some k) :
    (checkWeakCurve f keys)[n]? = some (weakCurveOne f k) ∧
    checkWeakCurve f [k] = [weakCurveOne f k] := by
  constructor
  · simp only [checkWeakCurve, List.getElem?_map, hk, Option.map_some]
  · rfl

/-- ★ end to end: two runs of `CheckAllEC` on FRESH keys — any batches, sizes, positions,
neighbours, parameters, float values, `_table` states — give the same key (same curve id and point)
the same CheckValidECKey entry and the same CheckWeakCurve entry. -/
theorem checkAllEC_individual_entries_local (p p' : EcParams) (o o' : EcOracle)
    (sts sts2 : List EcState) (arts arts2 arts' arts2' : List Artifact) (r r2 : Bool)
    (sts' sts2' : List EcState) (hfresh : ∀ a ∈ arts, a.info = TestInfo.empty)
    (hfresh2 : ∀ a ∈ arts2, a.info = TestInfo.empty)
    (h : checkAllECFull p o sts arts = .ok ((arts', r), sts'))
    (h2 : checkAllECFull p' o' sts2 arts2 = .ok ((arts2', r2), sts2'))
    (n n2 : Nat) (a a' a2' : Artifact) (ha : arts[n]? = some a) (ha2 : arts2[n2]? = some a)
    (ha' : arts'[n]? = some a') (ha2' : arts2'[n2]? = some a2') :
    getTestResult a'.info "CheckValidECKey" = getTestResult a2'.info "CheckValidECKey" ∧
    getTestResult a'.info "CheckWeakCurve" = getTestResult a2'.info "CheckWeakCurve" := by
  obtain ⟨_, _, rows, hrows, hall⟩ := checkAllEC_entries p o sts arts arts' r sts' hfresh h
  obtain ⟨_, _, rows2, hrows2, hall2⟩ := checkAllEC_entries p' o' sts2 arts2 arts2' r2 sts2' hfresh2 h2
  obtain ⟨_, _, _, he, _⟩ := hall n a a' ha ha'
  obtain ⟨_, _, _, he2, _⟩ := hall2 n2 a a2' ha2 ha2'
  obtain ⟨row1, row3, row4, _, rfl, hv, _⟩ := ecRowsG_ok hrows
  obtain ⟨row1', row3', row4', _, rfl, hv', _⟩ := ecRowsG_ok hrows2
  have hj0 : ecAll[0]? = some ⟨"CheckValidECKey", 2, false, false, false⟩ := by rw [ecAll_eq]; rfl
  have hj1 : ecAll[1]? = some ⟨"CheckWeakCurve", 2, true, false, false⟩ := by rw [ecAll_eq]; rfl
  have hloc := (checkValidECKey_local ecFactory _ _ _ _ hv hv' n n2 (keyOf a) (keys_getElem? ha)
    (keys_getElem? ha2)).1
  have hwc := (checkWeakCurve_local ecFactory (arts.map keyOf) n (keyOf a) (keys_getElem? ha)).1
  have hwc2 := (checkWeakCurve_local ecFactory (arts2.map keyOf) n2 (keyOf a) (keys_getElem? ha2)).1
  constructor
  · have e1 := he 0 _ hj0
    have e2 := he2 0 _ hj0
    simp only at e1 e2
    rw [e1, e2]
    have : verdictAt [row1, checkWeakCurve ecFactory (arts.map keyOf), row3, row4] 0 n =
        verdictAt [row1', checkWeakCurve ecFactory (arts2.map keyOf), row3', row4'] 0 n2 := by
      simp only [verdictAt, List.getElem?_cons_zero, hloc]
    rw [this]
  · have e1 := he 1 _ hj1
    have e2 := he2 1 _ hj1
    simp only at e1 e2
    rw [e1, e2]
    have : verdictAt [row1, checkWeakCurve ecFactory (arts.map keyOf), row3, row4] 1 n =
        verdictAt [row1', checkWeakCurve ecFactory (arts2.map keyOf), row3', row4'] 1 n2 := by
      simp only [verdictAt, List.getElem?_cons_succ, List.getElem?_cons_zero, hwc, hwc2]
    rw [this]

/-! ## CheckWeakECPrivateKey -/

/-- ★ soundness whatever the neighbours.  ANY batch (other keys off their curve, unreduced,
duplicates, unknown curves), any bound, `_table` states and float values: a verdict written for a
key on a known curve is negative without evidence or positive with a `DISCRETE_LOG` `v`; and if the
key is on the curve and has a private key (`P = d • G`, any integer `d`) then `v • G = P` and
`v ≡ d (mod n)`.  No hypothesis on the curve (primes certified). -/
theorem weakKey_sound_any_batch {bound : Nat} {keys : List ECKey} {sts : List EcState}
    {os : List (Nat × Nat)} {row : List Bsgs.KeyVerdict} {sts' : List EcState}
    (h : checkWeakECPrivateKeyB listImpl bound ecFactory sts os keys = .ok (row, sts'))
    {n : Nat} {k : ECKey} {kv : KV} (hk : keys[n]? = some k) (hkv : row[n]? = some (some kv))
    {c : Curve} (hc : factoryGet ecFactory k.curveType = some c) :
    haveI : Fact (Nat.Prime c.p) := ⟨prime_of_get hc⟩
    (kv = ⟨false, none⟩ ∨ ∃ v, kv = ⟨true, some (.dlog v)⟩) ∧
    ∀ v d : Int, kv.info = some (.dlog v) → onCurve c k.pt = true → toPoint c k.pt = d • Gp c →
      v • Gp c = toPoint c k.pt ∧ (v - d) % (c.n : Int) = 0 := by
  haveI : Fact (Nat.Prime c.p) := ⟨prime_of_get hc⟩
  obtain ⟨h1, h2⟩ := row3_sound fieldPrimes h hk hkv hc
  refine ⟨h1, fun v d hv hon hd => ?_⟩
  have hch := curveHyp_of_get hc
  obtain ⟨_, _, _, h4, _, h6⟩ := generator_of_paramsOK c hch.params
  have hs := h2 v hv (prime_of_get hc) hon (order_smul_of_privateKey c h4 hd)
  exact ⟨hs, dlog_congr c (h6 (orderPrime_of_get hc)) hs hd⟩

/-- ★ the documented families are found in EVERY context.  Two calls of CheckWeakECPrivateKey —
different batches, sizes, positions, neighbours (same or other curves), `_table` states left by any
earlier work, float values — each satisfying `WKHyp` (keys of known curves on their curve, reachable
states, floats `≥ 1`).  A reduced key `P = d • G` whose private key is a 32-bit value shifted by a
multiple of 8 bits or a 32-bit word repeated (`StructuredKey`) is flagged in BOTH, with logs
`v₁ ≡ v₂ ≡ d (mod n)`. -/
theorem weakKey_guaranteed_any_context (keys keys' : List ECKey) (sts sts2 : List EcState)
    (os os2 : List (Nat × Nat)) (hh : WKHyp keys ecFactory sts os) (hh2 : WKHyp keys' ecFactory sts2 os2)
    (n n' : Nat) (k : ECKey) (hk : keys[n]? = some k) (hk' : keys'[n']? = some k) (c : Curve)
    (hc : factoryGet ecFactory k.curveType = some c) (d i : Nat) (hred : Reduced c k.pt)
    (hi : i < 2 ^ 32) (hs : StructuredKey c d i) :
    haveI : Fact (Nat.Prime c.p) := ⟨prime_of_get hc⟩
    toPoint c k.pt = d • Gp c →
    ∃ row st1 row' st2 v v', checkWeakECPrivateKey ecFactory sts os keys = .ok (row, st1) ∧
      checkWeakECPrivateKey ecFactory sts2 os2 keys' = .ok (row', st2) ∧
      row[n]? = some (some ⟨true, some (.dlog v)⟩) ∧ row'[n']? = some (some ⟨true, some (.dlog v')⟩) ∧
      (v - d) % (c.n : Int) = 0 ∧ (v' - d) % (c.n : Int) = 0 := by
  haveI : Fact (Nat.Prime c.p) := ⟨prime_of_get hc⟩
  intro hd
  obtain ⟨row, st1, h1, _, _, _, s1⟩ := C10.checkWeakECPrivateKey_spec ecFactory sts os keys
    ecFactory_nodup hh
  obtain ⟨row', st2, h2, _, _, _, s2⟩ := C10.checkWeakECPrivateKey_spec ecFactory sts2 os2 keys'
    ecFactory_nodup hh2
  obtain ⟨kv, _, hkv, hok⟩ := s1 n k c hk hc
  obtain ⟨kv', _, hkv', hok'⟩ := s2 n' k c hk' hc
  obtain ⟨v, rfl, _, hv⟩ := hok.2.2 d i hred hd hi hs
  obtain ⟨v', rfl, _, hv'⟩ := hok'.2.2 d i hred hd hi hs
  exact ⟨row, st1, row', st2, v, v', h1, h2, hkv, hkv', hv (orderPrime_of_get hc),
    hv' (orderPrime_of_get hc)⟩

/-- a 40-bit curve object (`C10.ssCurve`: prime subgroup order of 40 bits, so ExtendedBatchDL has
the two multipliers `1`, `2^8`) as the only non-`None` entry of a factory. -/
def fSS : Factory := [⟨5, some C10.ssCurve⟩, ⟨6, none⟩]

/-- `30 • G` and three keys with 30/31-bit private keys (`1000000007 • G`, …) on `C10.ssCurve`. -/
def k30 : ECKey := ⟨5, 2302230261730, 1427356280212⟩
def kA : ECKey := ⟨5, 1880580146135, 3632557104279⟩
def kB : ECKey := ⟨5, 183945069868, 695884852719⟩
def kC : ECKey := ⟨5, 3338659869431, 2346414713389⟩

/-- ★ the verdict of CheckWeakECPrivateKey is NOT a function of the key alone.  Kernel-evaluated
ON THE 40-BIT TOY CURVE `C10.ssCurve` (not a curve of `CURVE_FACTORY`; `fSS` plants it under id 5),
with the literal `2**32` replaced by 16 (`checkWeakECPrivateKeyB … 16`) and the REAL float values
(`int(sqrt(16·2·1)) = 5`, `int(sqrt(5)) = 2`; `int(sqrt(16·2·4)) = 11`, `int(sqrt(11)) = 3`): the key
`30 • G` (30 ≥ 16: outside the documented family) is NOT flagged when checked alone in a fresh
process and IS flagged, with `DISCRETE_LOG = 30`, in a batch with three unrelated keys — the giant
step is `2·table_size - 1` and `table_size` grows with the batch.
Real code (secp256r1, literal `2**32`, fresh process, /var/tmp/w/echyp/scratch/wk_batch.py): the key
`d • G`, `d = 2**32 + 2000000`, alone → `result = False`; at position 4 of a batch with 8 random
keys → `result = True`, `DISCRETE_LOG = "1001e8480"`; alone again afterwards (cached table of
1179648 entries) → `False`. -/
theorem weakKey_verdict_depends_on_batch :
    (checkWeakECPrivateKeyB listImpl 16 fSS [StateG.init listImpl, StateG.init listImpl]
      [(5, 2), (1, 1)] [k30]).toOption.map Prod.fst = some [some ⟨false, none⟩] ∧
    (checkWeakECPrivateKeyB listImpl 16 fSS [StateG.init listImpl, StateG.init listImpl]
      [(11, 3), (1, 1)] [kA, kB, k30, kC]).toOption.map Prod.fst =
      some [some ⟨false, none⟩, some ⟨false, none⟩, some ⟨true, some (.dlog 30)⟩,
        some ⟨false, none⟩] := by
  decide +kernel

/-! ## CheckECKeySmallDifference -/

/-- ★ soundness whatever the batch: a verdict written for a key on a known curve is negative without
evidence or positive with a relation; when every key of the batch with the same curve id is on the
curve, the relation names ANOTHER key `Q` of the batch on the same curve with `P ≠ Q` and
`P - Q = d • G`.  Any `max_diff`, states, float values; no hypothesis on the curve. -/
theorem smallDiff_sound_any_batch {maxDiff : Nat} {keys : List ECKey} {sts : List EcState}
    {ms : List Nat} {row : List Bsgs.KeyVerdict} {sts' : List EcState}
    (h : checkECKeySmallDifferenceG listImpl ecFactory sts ms keys maxDiff = .ok (row, sts'))
    {n : Nat} {k : ECKey} {kv : KV} (hk : keys[n]? = some k) (hkv : row[n]? = some (some kv))
    {c : Curve} (hc : factoryGet ecFactory k.curveType = some c) :
    haveI : Fact (Nat.Prime c.p) := ⟨prime_of_get hc⟩
    (kv = ⟨false, none⟩ ∨ ∃ rel, kv = ⟨true, some (.diff rel)⟩) ∧
    ∀ rel, kv.info = some (.diff rel) →
      (∀ (n' : Nat) (k' : ECKey), keys[n']? = some k' → k'.curveType = k.curveType →
        onCurve c k'.pt = true) →
      ∃ (n' : Nat) (k' : ECKey), n' ≠ n ∧ keys[n']? = some k' ∧ k'.curveType = k.curveType ∧
        toPoint c (.aff rel.qx rel.qy) = toPoint c k'.pt ∧
        toPoint c k.pt - toPoint c k'.pt = rel.dl • Gp c ∧ toPoint c k.pt ≠ toPoint c k'.pt := by
  haveI : Fact (Nat.Prime c.p) := ⟨prime_of_get hc⟩
  obtain ⟨h1, h2⟩ := row4_sound fieldPrimes h hk hkv hc
  refine ⟨h1, fun rel hrel hon => ?_⟩
  obtain ⟨n', k', a1, a2, a3, _, a5, a6, a7⟩ := h2 rel hrel (prime_of_get hc) hon
  exact ⟨n', k', a1, a2, a3, a5, a6, a7⟩

/-- ★ WHO is flagged, exactly (`Bsgs.checkECKeySmallDifference_flag_iff`).  Factory with distinct
ids, a batch satisfying `SDHyp`.  For a curve entry `e` with curve `c`, `_table` state `st`, float
value `m`, and `V` a range of the table its `BatchDLOfDifferences(max_diff)` call uses (`DiffRange`:
a property of `st`, `max_diff`, `m` — `V ≥ max(cached size, max_diff)`, `V = ceil(size/m)·m` after
a rebuild): the key `k` of that curve is flagged IF AND ONLY IF some key `k'` of the batch on the
same curve satisfies `P ≠ P'`, `P - P' = kk • G`, `|kk| < V`. -/
theorem smallDiff_flag_iff (f : Factory) (sts : List EcState) (ms : List Nat)
    (keys : List ECKey) (maxDiff : Nat) (hnd : (f.map (·.id)).Nodup)
    (hh : SDHyp keys maxDiff f sts ms) :
    ∃ res sts', checkECKeySmallDifference f sts ms keys maxDiff = .ok (res, sts') ∧
      res.length = keys.length ∧
      (∀ (p : Nat) (k : ECKey), keys[p]? = some k → factoryGet f k.curveType = none →
        res[p]? = some none) ∧
      ∀ (e : FEntry) (c : Curve) (st : EcState) (m V : Nat) (hp : Nat.Prime c.p), e ∈ f →
        e.curve = some c → InFac f sts ms e st m →
        haveI : Fact (Nat.Prime c.p) := ⟨hp⟩
        DiffRange c st maxDiff m V →
        ∀ (p : Nat) (k : ECKey), keys[p]? = some k → k.curveType = e.id →
          ∃ kv, res[p]? = some (some kv) ∧
            (kv.result = true ↔ ∃ k' ∈ keys, k'.curveType = e.id ∧
              CloseG c V (toPoint c k.pt) (toPoint c k'.pt)) :=
  checkECKeySmallDifference_flag_iff f sts ms keys maxDiff hnd hh

/-- ★ the boolean verdicts are a function of the SET of keys of the batch.  Two calls of
CheckECKeySmallDifference from the same `_table` states with the same `max_diff` and float values,
on batches `keys`, `keys'` that contain the same keys (any order, any multiplicities): a key gets
the same boolean verdict in both, at whatever positions it stands; keys of unknown curves get no
entry in either. -/
theorem smallDiff_flags_same_set (f : Factory) (sts : List EcState) (ms : List Nat)
    (keys keys' : List ECKey) (maxDiff : Nat) (hnd : (f.map (·.id)).Nodup)
    (hh : SDHyp keys maxDiff f sts ms) (hset : ∀ k, k ∈ keys' ↔ k ∈ keys) :
    ∃ res st1 res' st2, checkECKeySmallDifference f sts ms keys maxDiff = .ok (res, st1) ∧
      checkECKeySmallDifference f sts ms keys' maxDiff = .ok (res', st2) ∧
      ∀ (p p' : Nat) (k : ECKey), keys[p]? = some k → keys'[p']? = some k →
        (factoryGet f k.curveType = none → res[p]? = some none ∧ res'[p']? = some none) ∧
        (∀ c, factoryGet f k.curveType = some c → ∃ kv kv', res[p]? = some (some kv) ∧
          res'[p']? = some (some kv') ∧ kv.result = kv'.result) := by
  have hh' : SDHyp keys' maxDiff f sts ms := sdHyp_mono (fun k hk => (hset k).mp hk) maxDiff f sts ms hh
  obtain ⟨res, st1, h1, _, n1, e1⟩ := smallDiff_flag_iff f sts ms keys maxDiff hnd hh
  obtain ⟨res', st2, h2, _, n2, e2⟩ := smallDiff_flag_iff f sts ms keys' maxDiff hnd hh'
  refine ⟨res, st1, res', st2, h1, h2, ?_⟩
  intro p p' k hk hk'
  refine ⟨fun hnone => ⟨n1 p k hk hnone, n2 p' k hk' hnone⟩, fun c hc => ?_⟩
  obtain ⟨e, he, hid, hcur⟩ := factoryGet_mem hc
  obtain ⟨st, m, hin, hch, hst, hm⟩ := sdHyp_entry hh e he c hcur
  haveI : Fact (Nat.Prime c.p) := ⟨hch.prime⟩
  obtain ⟨g1, g2, _, _, _, _⟩ := generator_of_paramsOK c hch.params
  obtain ⟨V, hV⟩ := diffRange_exists c g1 g2 hst maxDiff m hm
  obtain ⟨kv, hkv, hiff⟩ := e1 e c st m V hch.prime he hcur hin hV p k hk hid.symm
  obtain ⟨kv', hkv', hiff'⟩ := e2 e c st m V hch.prime he hcur hin hV p' k hk' hid.symm
  refine ⟨kv, kv', hkv, hkv', ?_⟩
  apply Bool.eq_iff_iff.mpr
  rw [hiff, hiff']
  constructor
  · rintro ⟨k', hm', rest⟩; exact ⟨k', (hset k').mpr hm', rest⟩
  · rintro ⟨k', hm', rest⟩; exact ⟨k', (hset k').mp hm', rest⟩

/-- ★ permuting the batch permutes the boolean verdicts. -/
theorem smallDiff_flags_perm (f : Factory) (sts : List EcState) (ms : List Nat)
    (keys keys' : List ECKey) (maxDiff : Nat) (hnd : (f.map (·.id)).Nodup)
    (hh : SDHyp keys maxDiff f sts ms) (hperm : keys.Perm keys') :
    ∃ res st1 res' st2, checkECKeySmallDifference f sts ms keys maxDiff = .ok (res, st1) ∧
      checkECKeySmallDifference f sts ms keys' maxDiff = .ok (res', st2) ∧
      ∀ (p p' : Nat) (k : ECKey), keys[p]? = some k → keys'[p']? = some k →
        (factoryGet f k.curveType = none → res[p]? = some none ∧ res'[p']? = some none) ∧
        (∀ c, factoryGet f k.curveType = some c → ∃ kv kv', res[p]? = some (some kv) ∧
          res'[p']? = some (some kv') ∧ kv.result = kv'.result) :=
  smallDiff_flags_same_set f sts ms keys keys' maxDiff hnd hh (fun _ => hperm.mem_iff.symm)

/-- ★ adding healthy keys changes no boolean verdict.  `keys'` contains every key of `keys` (plus
any further keys, anywhere in the batch; both batches satisfy `SDHyp`).  For a key `k` of `keys` on
curve entry `e` and every range `V` of the table in use (`DiffRange`): if no ADDED key of the same
curve is within `V` of `k` (`CloseG`), `k` gets the same boolean verdict in both batches. -/
theorem smallDiff_add_healthy (f : Factory) (sts : List EcState) (ms : List Nat)
    (keys keys' : List ECKey) (maxDiff : Nat) (hnd : (f.map (·.id)).Nodup)
    (hh : SDHyp keys maxDiff f sts ms) (hh' : SDHyp keys' maxDiff f sts ms)
    (hsub : ∀ k ∈ keys, k ∈ keys') :
    ∃ res st1 res' st2, checkECKeySmallDifference f sts ms keys maxDiff = .ok (res, st1) ∧
      checkECKeySmallDifference f sts ms keys' maxDiff = .ok (res', st2) ∧
      ∀ (e : FEntry) (c : Curve) (st : EcState) (m V : Nat) (hp : Nat.Prime c.p), e ∈ f →
        e.curve = some c → InFac f sts ms e st m →
        haveI : Fact (Nat.Prime c.p) := ⟨hp⟩
        DiffRange c st maxDiff m V →
        ∀ (p p' : Nat) (k : ECKey), keys[p]? = some k → keys'[p']? = some k → k.curveType = e.id →
          (∀ h ∈ keys', h ∉ keys → h.curveType = e.id →
            ¬ CloseG c V (toPoint c k.pt) (toPoint c h.pt)) →
          ∃ kv kv', res[p]? = some (some kv) ∧ res'[p']? = some (some kv') ∧
            kv.result = kv'.result := by
  obtain ⟨res, st1, h1, _, _, e1⟩ := smallDiff_flag_iff f sts ms keys maxDiff hnd hh
  obtain ⟨res', st2, h2, _, _, e2⟩ := smallDiff_flag_iff f sts ms keys' maxDiff hnd hh'
  refine ⟨res, st1, res', st2, h1, h2, ?_⟩
  intro e c st m V hp he hcur hin
  haveI : Fact (Nat.Prime c.p) := ⟨hp⟩
  intro hV p p' k hk hk' hid hhealthy
  obtain ⟨kv, hkv, hiff⟩ := e1 e c st m V hp he hcur hin hV p k hk hid
  obtain ⟨kv', hkv', hiff'⟩ := e2 e c st m V hp he hcur hin hV p' k hk' hid
  refine ⟨kv, kv', hkv, hkv', ?_⟩
  apply Bool.eq_iff_iff.mpr
  rw [hiff, hiff']
  constructor
  · rintro ⟨k', hm', rest⟩; exact ⟨k', hsub k' hm', rest⟩
  · rintro ⟨k', hm', hid', hcl⟩
    by_cases hin' : k' ∈ keys
    · exact ⟨k', hin', hid', hcl⟩
    · exact absurd hcl (hhealthy k' hm' hin' hid')

/-- ★ the guaranteed pairs are flagged in EVERY context: whatever the batch composition and order,
whatever earlier work left in `_table` (any reachable state), whatever the float value — a key with
a partner in the batch on the same curve at distance `0 < |kk| < max_diff` is flagged. -/
theorem smallDiff_guaranteed_any_context (f : Factory) (sts : List EcState) (ms : List Nat)
    (keys : List ECKey) (maxDiff : Nat) (hnd : (f.map (·.id)).Nodup)
    (hh : SDHyp keys maxDiff f sts ms) :
    ∃ res sts', checkECKeySmallDifference f sts ms keys maxDiff = .ok (res, sts') ∧
      ∀ (p : Nat) (k k' : ECKey) (c : Curve) (hp : Nat.Prime c.p), keys[p]? = some k →
        factoryGet f k.curveType = some c → k' ∈ keys → k'.curveType = k.curveType →
        haveI : Fact (Nat.Prime c.p) := ⟨hp⟩
        CloseG c maxDiff (toPoint c k.pt) (toPoint c k'.pt) →
        ∃ kv, res[p]? = some (some kv) ∧ kv.result = true := by
  obtain ⟨res, sts', h1, _, _, e1⟩ := smallDiff_flag_iff f sts ms keys maxDiff hnd hh
  refine ⟨res, sts', h1, ?_⟩
  intro p k k' c hp hk hc hk' hid'
  haveI : Fact (Nat.Prime c.p) := ⟨hp⟩
  intro hcl
  obtain ⟨e, he, hid, hcur⟩ := factoryGet_mem hc
  obtain ⟨st, m, hin, hch, hst, hm⟩ := sdHyp_entry hh e he c hcur
  obtain ⟨g1, g2, _, _, _, _⟩ := generator_of_paramsOK c hch.params
  obtain ⟨V, hV⟩ := diffRange_exists c g1 g2 hst maxDiff m hm
  obtain ⟨kv, hkv, hiff⟩ := e1 e c st m V hp he hcur hin hV p k hk hid.symm
  have hle : maxDiff ≤ V := by
    obtain ⟨_, _, _, _, hle⟩ := hV
    exact le_trans (le_max_right _ _) hle
  obtain ⟨hne, kk, hkk, hlt⟩ := hcl
  exact ⟨kv, hkv, hiff.mpr ⟨k', hk', hid'.trans hid.symm, hne, kk, hkk, by omega⟩⟩

/-- factory with the toy curve of Props/C10 (`y² = x³ - 3x + 12` over GF(113), order 101). -/
def fToy : Factory := [⟨5, some C10.toy⟩]

/-- ★ the recorded EVIDENCE depends on the order of the batch.  Keys `10•G = (2, 50)`,
`11•G = (6, 60)`, `12•G = (96, 3)` on the toy curve, `max_diff = 4`, fresh state: all three are
flagged in both orders (as `smallDiff_flags_perm` says), but the key `10•G` carries
`"key - (96, 3) = -2 * G"` (partner `12•G`) in the order `[10, 11, 12]` and `"key - (6, 60) = -1 * G"`
(partner `11•G`) in the order `[10, 12, 11]`: the last hit in scan order is kept.
Real code (secp256r1, keys `b+10, b+11, b+12`, /var/tmp/w/echyp/scratch/sd_order.py): order
`(0,1,2)` → key 0 names key 2 with `-2 * G`; order `(0,2,1)` → key 0 names key 1 with `-1 * G`; the
`result` booleans are `True` for all three keys in all six orders. -/
theorem smallDiff_evidence_depends_on_order :
    (checkECKeySmallDifference fToy [StateG.init listImpl] [2]
      [⟨5, 2, 50⟩, ⟨5, 6, 60⟩, ⟨5, 96, 3⟩] 4).toOption.map Prod.fst =
      some [some ⟨true, some (.diff ⟨96, 3, -2⟩)⟩, some ⟨true, some (.diff ⟨96, 3, -1⟩)⟩,
        some ⟨true, some (.diff ⟨6, 60, 1⟩)⟩] ∧
    (checkECKeySmallDifference fToy [StateG.init listImpl] [2]
      [⟨5, 2, 50⟩, ⟨5, 96, 3⟩, ⟨5, 6, 60⟩] 4).toOption.map Prod.fst =
      some [some ⟨true, some (.diff ⟨6, 60, -1⟩)⟩, some ⟨true, some (.diff ⟨6, 60, 1⟩)⟩,
        some ⟨true, some (.diff ⟨96, 3, -1⟩)⟩] := by
  decide +kernel

/-- the state an earlier `BatchDL` / `BatchDLOfDifferences` call with table size 8 leaves on the toy
curve object. -/
def stToy8 : EcState :=
  ⟨8, [(none, 0), (some 42, 1), (some 4, 2), (some 54, 3), (some 3, 4), (some 112, 5), (some 57, 6),
    (some 5, 7)]⟩

/-- ★ the verdict depends on earlier work (in the direction the property allows only).  Keys
`20•G = (60, 51)` and `25•G = (36, 111)` — distance 5 — with `max_diff = 4`: from the fresh state
nobody is flagged; from the reachable state `stToy8` (cached table of size 8 ≥ 4, kept) both are.
Real code (secp256r1, /var/tmp/w/echyp/scratch/sd_order.py): distance 1500, `max_diff = 1024`: fresh
→ `[False, False]`; after an unrelated `BatchDL([g], 2**22)` (leaves `_table_size = 2048`) →
`[True, True]` with `"… = -1500 * G"`. -/
theorem smallDiff_verdict_depends_on_history :
    (ensureTableG listImpl C10.toy (StateG.init listImpl) 8 2).toOption.map
      (fun s => (s.tableSize, s.table)) = some (stToy8.tableSize, stToy8.table) ∧
    (checkECKeySmallDifference fToy [StateG.init listImpl] [2]
      [⟨5, 60, 51⟩, ⟨5, 36, 111⟩] 4).toOption.map Prod.fst =
      some [some ⟨false, none⟩, some ⟨false, none⟩] ∧
    ((checkECKeySmallDifference fToy [stToy8] [2]
      [⟨5, 60, 51⟩, ⟨5, 36, 111⟩] 4).toOption.map Prod.fst).map (·.map (·.map (·.result))) =
      some [some true, some true] := by
  decide +kernel

/-! non-vacuity of the hypotheses of the two-batch theorems -/

/-- `SDHyp` for the toy factory, the three-key batch of `smallDiff_evidence_depends_on_order` and
the NON-fresh state `stToy8` — so `smallDiff_flags_perm` / `_same_set` / `_add_healthy` apply. -/
example : SDHyp [⟨5, 2, 50⟩, ⟨5, 6, 60⟩, ⟨5, 96, 3⟩] 4 fToy [stToy8] [2] := by
  refine ⟨fun c hc => ?_, trivial⟩
  cases hc
  exact ⟨⟨by decide +kernel, by decide +kernel, by decide +kernel⟩,
    .inr ⟨2, by decide, by decide, by decide +kernel⟩, by decide +kernel, fun _ => by decide⟩

end Paranoid.C17Ec
