/-
Props/C18.lean — "Checks are total on well-formed batches" (what is proved so far).

RSA single checks (per-key verdict functions of Model/RsaChecks.lean): none of them raises, for
EVERY modulus, every constructor parameter and every oracle answer of the right shape. The
internal `raise ArithmeticError("expecting that square root exists")` of
FactorHighAndLowBitsEqual is unreachable. Batch level: BatchGCD / CheckGCD / CheckGCDN1 never
raise on positive moduli (C03, incl. the empty batch after `fix:` D1); the bookkeeping layer
never raises on fresh artefacts (C16). EC arithmetic: Add / Double / Subtract are total for every
integer coordinates (C11 `add_double_total`, after `fix:` D3).
-/
import ParanoidModel.Proofs.Totality
import ParanoidModel.Props.C19
import ParanoidModel.Props.C03
import ParanoidModel.Props.C11
import ParanoidModel.Props.C10
import ParanoidModel.Props.C02S
import ParanoidModel.Props.C08
namespace Paranoid.C18
open Paranoid

/-- `CheckFermat`: a total function (no `Except` in its model). -/
theorem fermat_total (n steps : Nat) : ∃ v, vFermat n steps = v := ⟨_, rfl⟩

/-- `CheckHighAndLowBitsEqual` never raises; in particular the `ArithmeticError` branch and
the `None % 2` TypeError inside `Inverse2exp(InverseSqrt2exp(...))` are unreachable. -/
theorem hlbe_total (n mb : Nat) : ∃ v, vHlbe n mb = .ok v := by
  have key : ∃ r, factorHighAndLowBitsEqual n mb = .ok r := by
    unfold factorHighAndLowBitsEqual
    split
    · exact ⟨_, rfl⟩
    · split
      · exact ⟨_, rfl⟩
      · rename_i hlen h8
        have h8' : n % 8 = 1 := by omega
        have hk : 3 ≤ (bitLength n + 1) / 2 + 1 := by omega
        obtain ⟨a, ha, hsq⟩ := (C19.inverseSqrt2exp_some_iff n _ hk).mpr h8'
        simp only [ha]
        have hodd : a % 2 = 1 := by
          by_contra hc
          have he : a % 2 = 0 := by omega
          obtain ⟨c, rfl⟩ : ∃ c, a = 2 * c := ⟨a / 2, by omega⟩
          have h2 : 2 ∣ 2 ^ ((bitLength n + 1) / 2 + 1) := Dvd.intro_left _ (by rw [← Nat.pow_succ])
          have : (2 * c * (2 * c) * n) % 2 ^ ((bitLength n + 1) / 2 + 1) % 2 = 0 := by
            rw [Nat.mod_mod_of_dvd _ h2]
            have : 2 * c * (2 * c) * n = 2 * (c * (2 * c) * n) := by ring
            rw [this]; exact Nat.mul_mod_right 2 _
          rw [hsq] at this; omega
        have hne : inverse2exp a ((bitLength n + 1) / 2 + 1) ≠ none := by
          rw [Ne, C19.inverse2exp_none_iff]; omega
        obtain ⟨r0, hr0⟩ := Option.ne_none_iff_exists'.mp hne
        simp only [hr0]
        split <;> exact ⟨_, rfl⟩
  obtain ⟨r, hr⟩ := key
  unfold vHlbe
  rw [hr]
  split
  · simp at *
  · exact ⟨_, rfl⟩
  · exact ⟨_, rfl⟩

theorem cf_total (n bound : Nat) : ∃ v, vCf n bound = .ok v := vCf_total n bound

theorem bitPatterns_total (n : Nat) (ps : List Nat) (red : Nat → List (List Int))
    (hred : RedWF red) : ∃ v, vBitPatterns n ps red = .ok v := vBitPatterns_total n ps red hred

theorem permuted_total (n : Nat) (red : Nat → List (List Int)) (hred : RedWF red) :
    ∃ v, vPermuted n red = .ok v := vPermuted_total n red hred

theorem sud_total (n cbrt : Nat) (hn : 0 < n) : ∃ v, vSud n cbrt = .ok v := vSud_total n cbrt hn

theorem unseeded_total (n cbrt : Nat) (cands : List Nat) (h : ∀ c ∈ cands, c ≠ 0) :
    ∃ v, vUnseeded n cbrt cands = .ok v := vUnseeded_total n cbrt cands h

/-- shared-factor checks never raise on positive moduli, including the empty batch. -/
theorem checkGCD_total (ns : List Nat) (hpos : ∀ n ∈ ns, 0 < n) : ∃ r, checkGCD ns = .ok r :=
  ⟨_, C03.checkGCD_spec ns hpos⟩

theorem checkGCDN1_total (bound : Nat) (ns : List Nat) (hpos : ∀ n ∈ ns, 2 ≤ n) :
    ∃ r, checkGCDN1 bound ns = .ok r := ⟨_, C03.checkGCDN1_spec bound ns hpos⟩

/-! ### EC keys -/

section ec
open Paranoid.Ec Paranoid.Bsgs

/-- `CheckWeakECPrivateKey` on a batch with any mixture of curve ids incl. unknown / binary-field
ones whose keys on known curves are ON the curve and whose `_table` states are reachable (`WKHyp`)
returns one verdict per key and never raises. WITHOUT these two hypotheses (any coordinates, any
table): `C18Ec.weakECPrivateKey_total_any`. -/
theorem weakECPrivateKey_total (f : Bsgs.Factory) (sts : List EcState) (orc : List (Nat × Nat))
    (keys : List ECKey) (hnd : (f.map (·.id)).Nodup) (hh : WKHyp keys f sts orc) :
    ∃ res sts', checkWeakECPrivateKey f sts orc keys = .ok (res, sts') ∧ res.length = keys.length := by
  obtain ⟨res, sts', h1, h2, _⟩ := C10.checkWeakECPrivateKey_spec f sts orc keys hnd hh
  exact ⟨res, sts', h1, h2⟩

/-- `CheckECKeySmallDifference` under `SDHyp` (keys on known curves on the curve AND reduced,
reachable tables). Without these hypotheses: `C18Ec.smallDifference_total_any`. -/
theorem smallDifference_total (f : Bsgs.Factory) (sts : List EcState) (ms : List Nat)
    (keys : List ECKey) (maxDiff : Nat) (hnd : (f.map (·.id)).Nodup)
    (hh : SDHyp keys maxDiff f sts ms) :
    ∃ res sts', checkECKeySmallDifference f sts ms keys maxDiff = .ok (res, sts') ∧
      res.length = keys.length := by
  obtain ⟨res, sts', h1, h2, _⟩ := C10.checkECKeySmallDifference_spec f sts ms keys maxDiff hnd hh
  exact ⟨res, sts', h1, h2⟩

end ec

/-! ### ECDSA signatures -/

section ecdsa
open Paranoid.EcdsaChecks

/-- the CHECK LAYER of the nonce / LCG / U2F checks (solver calls are answer oracles) never raises
when `s` is invertible modulo the order of the signature's curve (`r, s ∈ [1, n-1]` with `n` prime:
`C02S.wf_of_range`) — any hash length, any issuer key (invalid, unreduced, `(0,0)`), any curve id,
any batch size, any solver answers; `r` is unconstrained only because exceptions raised inside a
solver are outside this model (`Cr50U2fGuesses` raises ZeroDivisionError for `r ≡ 0 (mod n)`).
Composed with the solver models under `r, s ∈ [1, n-1]`: `C18Ec.sig_checks_solver_total`. -/
theorem sig_checks_total (k : Kind) (O : Nat → GroupOracle) (factory : EcdsaChecks.Factory)
    (arts : List Sig) (hF : FactoryOK factory) (hcons : UniqConsistent O arts factory)
    (hwf : k ≠ .cr50 → ∀ s ∈ arts, ∀ obj, (s.curve, some obj) ∈ factory →
      Int.gcd (bytes2int s.s : Int) obj.curve.n = 1) :
    ∃ res, check k O factory arts = .ok res :=
  C02S.check_total k O factory arts hF hcons hwf

end ecdsa

end Paranoid.C18
