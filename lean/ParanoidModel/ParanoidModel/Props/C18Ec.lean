/-
Props/C18Ec.lean — C18 "Checks are total on well-formed batches", the EC and ECDSA half at the
strength of the property text: "EC coordinates of any size … coordinates 0 / p / huge / off-curve …
ECDSA signatures with r and s in [1, n-1], any hash length and any issuer key … signatures whose
issuer key is invalid" (review findings F2, F7; also F4, F16).

What is proved (model of the code as repaired by fixes D3, D18; all statements for EVERY batch size
incl. the empty batch, every mixture of known / unknown / binary-field curve ids, duplicates):

EC keys — NO hypothesis on the coordinates (any natural numbers: 0, p, p+x, 2^600, off the curve,
`(0,0)`, keys equal up to reduction mod p) and NO hypothesis on the cached `_table` of the curve
objects (any dict), for every `ExtendedBatchDL` bound and every `max_diff`:
  * `multiply_raises_iff`  `EcCurve.Multiply(P, k)` raises exactly for `k = 2`, `y ≠ 0`, `p ∣ y`,
    `3x² + a ≡ 0 (mod p)` (ValueError) — e.g. `Multiply((1, p), 2)` on secp256r1; NO check reaches
    it (`ExtendedBatchDL` multiplies by `invert(mult, n) ≠ 2`: `Bsgs.ext_inverse_ne_two`);
  * `batchDL_total`, `extendedBatchDL_total`, `batchDLOfDifferences_total`  function level;
  * `validECKey_total`, `weakCurve_total`, `weakECPrivateKey_total_any`,
    `smallDifference_total_any`  check level, with an entry exactly for the keys on known curves;
  * `checkAllEC_total_any`  the entry point `paranoid.CheckAllEC`.
  Remaining hypotheses: the curve objects are valid (`FactoryHyp`: proved for `CURVE_FACTORY`, incl.
  primality), one `_table` state per curve object, float oracles `int(math.sqrt(·)) ≥ 1`.
ECDSA signatures:
  * `checkAllECDSASigs_total_any`  the entry point with solver ANSWERS as oracles: no hypothesis on
    the issuer keys (CheckIssuerKey runs `CheckAllEC` on them), only `gcd(s, n) = 1`;
  * `sig_checks_solver_total`  each nonce check COMPOSED with the solver models (Model/Hnp.lean,
    Model/Cr50.lean): hypotheses `r, s ∈ [1, n-1]` (here `r` matters: `Cr50U2fGuesses` raises
    ZeroDivisionError for `r ≡ 0`, `cr50_solver_raises`); oracles left: `lll.reduce` output (rows of
    length ≥ 2), one float value, the `set` orders;
  * `checkAllECDSASigs_solver_total`  the same at the entry point: the run returns and every solver
    call it recorded returns in the solver model.
-/
import ParanoidModel.Proofs.EcTotalAll
import ParanoidModel.Props.C16EcAll
namespace Paranoid.C18Ec
open Paranoid Paranoid.Ec Paranoid.Bsgs Paranoid.EcAll

/-! ## `EcCurve.Multiply` on arbitrary integer coordinates -/

/-- ★ exact domain of failure of `Multiply` over an odd prime field: ANY integers `x, y, k`. The only
exception is `ValueError("All coordinates zero in Jacobian representation")`, raised iff the scalar is
`2`, `y` is a NON-ZERO multiple of `p` (so `DoubleJacobian`'s test `y == 0` on the unreduced integer
does not fire) and the tangent numerator `3x² + a` (`3(x+1)(x-1)` for `a = -3`) vanishes mod `p`.
Real code: `secp256r1.Multiply((1, p), 2)` raises ValueError, `Multiply((1, p), 3) = (1, 0)`,
`Multiply((1, p), 4) = INFINITY` (scratch facts_ec.py). -/
theorem multiply_raises_iff (c : Curve) [Fact (Nat.Prime c.p)] (h2 : c.p ≠ 2) (x y k : Int) (e : PyErr) :
    multiply c (.aff x y) k = .error e ↔
      e = .valueError ∧ k = 2 ∧ y ≠ 0 ∧ c.red y = 0 ∧ doubleJM c x 1 = 0 :=
  multiply_error_iff c h2 x y k e

/-- … and it returns on everything else. -/
theorem multiply_total_off (c : Curve) [Fact (Nat.Prime c.p)] (h2 : c.p ≠ 2) (x y k : Int)
    (h : ¬ (k = 2 ∧ y ≠ 0 ∧ c.red y = 0 ∧ doubleJM c x 1 = 0)) :
    ∃ R, multiply c (.aff x y) k = .ok R := by
  rcases multiply_cases c h2 x y k with ⟨hb, _⟩ | ⟨_, hR⟩
  · exact absurd hb h
  · exact hR

example : multiply secp256r1 (.aff 1 secp256r1.p) 2 = .error .valueError := by decide +kernel
example : multiply secp256r1 (.aff 1 secp256r1.p) 3 = .ok (.aff 1 0) := by decide +kernel
example : multiply secp256r1 (.aff 1 secp256r1.p) 4 = .ok .inf := by decide +kernel
example : multiply secp256k1 (.aff 0 (3 * secp256k1.p)) 2 = .error .valueError := by decide +kernel

/-- the scalar `2` is never an `ExtendedBatchDL` multiplier inverse, for ANY group order. -/
theorem ext_inverse_ne_two (c : Curve) (hn : 2 ≤ c.n) (mu : Nat) (hmu : mu ∈ extMultipliers c)
    (inv : Nat) (h : invMod (mu : Int) c.n = .ok inv) : inv ≠ 2 :=
  Bsgs.ext_inverse_ne_two c hn mu hmu inv h

/-! ## function level: any points, any cached table -/

/-- `BatchDL(points, n)` never raises: valid curve object, ANY `_table` state, ANY list of points
(INFINITY allowed), `table_size ≥ 1`. -/
theorem batchDL_total (c : Curve) (hc : CurveHyp c) (st : EcState) (points : List Pt)
    (n ts m : Nat) (hts : 1 ≤ ts) (hm : st.tableSize < ts → 1 ≤ m) :
    ∃ res st', batchDL c st points n ts m = .ok (res, st') ∧ res.length = points.length := by
  haveI : Fact (Nat.Prime c.p) := ⟨hc.prime⟩
  obtain ⟨h1, h2, _⟩ := generator_of_paramsOK c hc.params
  exact batchDL_total_any c h1 h2 (reduced_of_paramsOK c hc.params).1 st points n ts m hts hm

/-- `ExtendedBatchDL(points)` never raises on ANY points. -/
theorem extendedBatchDL_total (c : Curve) (hc : CurveHyp c) (st : EcState) (points : List Pt)
    (ts m : Nat) (hts : 1 ≤ ts) (hm : st.tableSize < ts → 1 ≤ m) :
    ∃ res st', extendedBatchDL c st points ts m = .ok (res, st') ∧ res.length = points.length := by
  haveI : Fact (Nat.Prime c.p) := ⟨hc.prime⟩
  obtain ⟨h1, h2, _⟩ := generator_of_paramsOK c hc.params
  obtain ⟨h7, h8⟩ := reduced_of_paramsOK c hc.params
  exact extendedBatchDLB_total_any c h1 h2 h7 h8 (multipliersOK_of_b hc.mults) (2 ^ 32) st points
    ts m hts hm

/-- `BatchDLOfDifferences(points, other_points, max_diff)` never raises on ANY finite points. -/
theorem batchDLOfDifferences_total (c : Curve) (hc : CurveHyp c) (st : EcState)
    (points other : List Pt) (hpts : ∀ P ∈ points, IsAff P) (hoth : ∀ P ∈ other, IsAff P)
    (maxDiff m : Nat) (hm : st.tableSize < maxDiff → 1 ≤ m) :
    ∃ rels st', batchDLOfDifferences c st points other maxDiff m = .ok (rels, st') ∧
      rels.length = points.length := by
  haveI : Fact (Nat.Prime c.p) := ⟨hc.prime⟩
  obtain ⟨h1, h2, _⟩ := generator_of_paramsOK c hc.params
  exact batchDLOfDifferences_total_any c h1 h2 st points other hpts hoth maxDiff m hm

/-! ## check level -/

/-- `CheckValidECKey.Check` on `CURVE_FACTORY`: every key gets a verdict, any coordinates. -/
theorem validECKey_total (keys : List ECKey) :
    ∃ row, checkValidECKey ecFactory keys = .ok row ∧ row.length = keys.length :=
  ⟨_, C06.checkValidECKey_factory keys, by simp⟩

/-- `CheckWeakCurve.Check` has no `Except` in its model; one slot per key. -/
theorem weakCurve_total (f : Bsgs.Factory) (keys : List ECKey) :
    (checkWeakCurve f keys).length = keys.length := by simp [checkWeakCurve]

/-- ★ `CheckWeakECPrivateKey.Check`: every factory of valid curve objects with distinct ids, ANY
`_table` states, ANY keys. Supersedes `C18.weakECPrivateKey_total` (which assumed `WKHyp`: on-curve
keys, reachable tables). -/
theorem weakECPrivateKey_total_any (f : Bsgs.Factory) (hf : FactoryHyp f)
    (hnd : (f.map (·.id)).Nodup) (sts : List EcState) (hlen : sts.length = f.length)
    (orc : List (Nat × Nat)) (keys : List ECKey)
    (horc : List.Forall₂ (fun (e : FEntry) (x : Nat × Nat) =>
      groupPoints e.id keys ≠ [] → 1 ≤ x.1 ∧ 1 ≤ x.2) f orc) :
    ∃ res sts', checkWeakECPrivateKey f sts orc keys = .ok (res, sts') ∧
      sts'.length = f.length ∧ RowShape f keys res := by
  obtain ⟨res, sts', h, hl, hs⟩ := checkWeakECPrivateKeyB_total_any (2 ^ 32) f hf hnd sts hlen orc keys horc
  exact ⟨res, sts', by rw [← checkWeakECPrivateKeyB_eq]; exact h, hl, hs⟩

/-- ★ `CheckECKeySmallDifference(max_diff).Check`: same quantification. Supersedes
`C18.smallDifference_total` (which assumed `SDHyp`: on-curve AND reduced keys). -/
theorem smallDifference_total_any (f : Bsgs.Factory) (hf : FactoryHyp f)
    (hnd : (f.map (·.id)).Nodup) (sts : List EcState) (hlen : sts.length = f.length)
    (ms : List Nat) (keys : List ECKey) (maxDiff : Nat)
    (hms : List.Forall₂ (fun (_ : FEntry) (m : Nat) => 0 < maxDiff → 1 ≤ m) f ms) :
    ∃ res sts', checkECKeySmallDifference f sts ms keys maxDiff = .ok (res, sts') ∧
      sts'.length = f.length ∧ RowShape f keys res :=
  checkECKeySmallDifference_total_any maxDiff f hf hnd sts hlen ms keys hms

/-- the hypotheses on the factory hold for `CURVE_FACTORY` as regenerated from /repo (parameter
check, invertible multipliers, and — kernel-checked Pratt certificates — prime fields). -/
theorem curve_factory_hyp : FactoryHyp ecFactory ∧ (ecFactory.map (·.id)).Nodup :=
  ⟨ecFactory_hyp, ecFactory_nodup⟩

/-! ## `paranoid.CheckAllEC` -/

/-- ★ **`CheckAllEC` is total on arbitrary coordinates.** For every `ExtendedBatchDL` bound and
`max_diff`, every batch of keys (any coordinates, any curve ids, any `test_info` already present),
one `_table` state of ANY content per curve object and float oracles `≥ 1` (`ECWF'`): none of the four
registered checks raises, the check models and the bookkeeping layer agree about which keys get an
entry, the bookkeeping layer does not raise. No `FieldPrimes` hypothesis, no `bound = 2^32`. -/
theorem checkAllEC_total_any (p : EcParams) (o : EcOracle) (sts : List EcState)
    (arts : List Artifact) (hwf : ECWF' p o sts arts) :
    ∃ arts' r sts', checkAllECFull p o sts arts = .ok ((arts', r), sts') ∧
      sts'.length = ecFactory.length := by
  obtain ⟨rows, sts', hrows, hst'⟩ := ecRowsG_total_any p o sts arts hwf
  obtain ⟨⟨arts', r⟩, hbk⟩ := checkArtifacts_ok .repaired Consts.libVersion ecAll
    (mkSteps ecAll (verdictAt rows) noInner)
    (fun s hs => by
      obtain ⟨j, c, _, rfl⟩ := mem_mkSteps hs
      exact ⟨fun i => verdictAt_factors _ j i, fun _ _ => rfl⟩) arts
  exact ⟨arts', r, sts', checkAllECFull_of hrows hbk, hst'⟩

/-- the earlier well-formedness predicate implies the new one (so this theorem also covers every
call covered by `EcAll.checkAllECFull_total`). -/
theorem ecwf_weaken {p : EcParams} {o : EcOracle} {sts : List EcState} {arts : List Artifact}
    (h : ECWF p o sts arts) : ECWF' p o sts arts := h.weaken

/-! ## `paranoid.CheckAllECDSASigs` -/

/-- ★ **`CheckAllECDSASigs` is total for ANY issuer keys** (solver answers as oracles). On a call
satisfying `SigWF'` — curve objects of `CURVE_FACTORY`, one `_table` state of any content per curve
object, `set`-order oracles that are enumerations, `gcd(s, n) = 1` for signatures with a known
curve, float oracles of the inner `CheckAllEC` `≥ 1` — all eight registered checks return. Nothing is
assumed about the issuer keys: CheckIssuerKey runs the whole `CheckAllEC` model on the distinct
issuer keys, whatever their coordinates. (`r` is unconstrained HERE only because the solver is an
answer oracle in this model: see `checkAllECDSASigs_solver_total`.) -/
theorem checkAllECDSASigs_total_any (p : EcParams) (O : SigOracle) (st : SigState XTable)
    (sarts : List SigArt) (hwf : SigWF' p O st sarts) :
    ∃ run, checkAllECDSASigsFull p O st sarts = .ok run ∧ TotInv' run.state := by
  obtain ⟨outs, st', hsteps, hi', _⟩ := sigStepsG_total_any hwf ecdsaAll.zipIdx
    (fun cj hcj => by
      have := List.mem_zipIdx hcj
      simp only [Nat.zero_le, Nat.zero_add, Nat.sub_zero, true_and] at this
      rw [List.getElem?_eq_getElem this.1]; exact congrArg some this.2.symm)
    st ⟨hwf.factory, hwf.curves, hwf.tables⟩
  have hinv : SigInv st.factory st := ⟨hwf.factory, by
    rw [curvesOf_ids hwf.curves]; exact C02S.namedFactory_ids.1, fun cid obj hm => ⟨obj, hm, rfl⟩⟩
  obtain ⟨r, hbk⟩ := checkArtifacts_ok .repaired Consts.libVersion ecAll
    (mkSteps ecdsaAll (sigVerdictAt outs) (sigInnerAt outs))
    (fun s hs => by
      obtain ⟨j, c, _, rfl⟩ := mem_mkSteps hs
      exact ⟨fun i => sigVerdictAt_factors hinv hsteps j i, fun jj k => sigInnerAt_factors outs j jj k⟩)
    (sarts.map SigArt.art)
  refine ⟨⟨r, outs, st'⟩, ?_, hi'⟩
  unfold checkAllECDSASigsFull checkAllECDSASigsFullG
  rw [hsteps]
  simp only
  have : checkAllECDSASigs .repaired (sigVerdictAt outs) (sigInnerAt outs) (sarts.map SigArt.art) =
      .ok r := hbk
  rw [this]

/-! ## the nonce checks composed with the solver models (F7) -/

section solver
open Paranoid.EcdsaChecks Paranoid.Hnp

/-- ★ **check layer ∘ solver layer never raises on the property's inputs.** `checkSolved` runs
`BiasedBaseCheck.Check` / `CheckCr50U2f.Check` and evaluates every solver call
(`HiddenNumberProblem`, `HiddenNumberProblemForCurve`, `Cr50U2fGuesses`) by its MODEL on the
arguments the check built. Hypotheses: a registered kind of check; valid curve objects with
distinct ids and odd prime orders; every signature with a known curve id has `r, s ∈ [1, n-1]`
(any hash length — empty, 64 bytes —, any issuer key, any mixture of curve ids, any batch size);
`set`-order oracles that are enumerations. Oracles that remain: the reduced bases returned by
`lll.reduce` (ANY rows of length ≥ 2), the float `int(n.bit_length()/len(a)*1.25)` (ANY value), the
constant table `CONSTANT_FACTORY` (ANY constants; positive size fields). -/
theorem sig_checks_solver_total (lcg : List LcgMeta) (hlcg : ∀ m ∈ lcg, MetaOk m) (S : SolverOracle)
    (hS : ∀ cid j kk, LllShape (S cid j kk)) (k : Kind) (hk : KindOK k) (O : Nat → GroupOracle)
    (factory : EcdsaChecks.Factory) (arts : List Sig) (hF : FactoryOK factory)
    (hnd : (factory.map Prod.fst).Nodup)
    (hprime : ∀ cid obj, (cid, some obj) ∈ factory → obj.curve.n.Prime ∧ obj.curve.n ≠ 2)
    (hcons : UniqConsistent O arts factory)
    (hrange : ∀ s ∈ arts, ∀ obj, (s.curve, some obj) ∈ factory → SigRange obj.curve.n s) :
    ∃ res answers, checkSolved (envOf lcg factory) S k O factory arts = .ok (res, answers) :=
  checkSolved_total lcg hlcg S hS k hk O factory arts hF hnd hprime hcons hrange

/-- the composed model returns what the check model returns: every C02 / C08 statement about
`EcdsaChecks.check` applies to it. -/
theorem checkSolved_is_check (E : SolverEnv) (S : SolverOracle) (k : Kind) (O : Nat → GroupOracle)
    (factory : EcdsaChecks.Factory) (arts : List Sig) (res : CheckResult)
    (answers : List (Nat × List (List (List Int))))
    (h : checkSolved E S k O factory arts = .ok (res, answers)) :
    check k O factory arts = .ok res ∧ solveAll E S res.calls = .ok answers :=
  checkSolved_ok E S k O factory arts res answers h

/-- the solver layer: `HiddenNumberProblem(a, b, None, n, bias)` on a non-empty `a`, `len(a) = len(b)`,
odd prime `n` (needed: the postfix variant inverts `2^bits` modulo `n`). -/
theorem hiddenNumberProblem_never_raises (a b : List Int) (n : Nat) (β : Bias) (fb : Nat)
    (basis : List (List Int)) (hlen : a.length = b.length) (ha : a ≠ []) (hp : n.Prime)
    (h2 : n ≠ 2) (hrows : ∀ r ∈ basis, 2 ≤ r.length) :
    ∃ gs, hiddenNumberProblem a b none n β fb basis = .ok gs :=
  hiddenNumberProblem_total a b n β fb basis hlen ha hp h2 hrows

/-- `HiddenNumberProblemForCurve` on `len(a) = len(b)`, a curve of prime order, a non-empty flag set. -/
theorem hnpForCurve_never_raises (a b : List Int) (curve n : Nat) (lcg : Option Nat)
    (f : SearchFlags) (factory : List LcgMeta) (oracle : Nat → List (List Int))
    (hlen : a.length = b.length) (hf : f.none = false) (hp : n.Prime)
    (hmeta : ∀ m ∈ factory, MetaOk m) (hrows : ∀ k, ∀ r ∈ oracle k, 2 ≤ r.length) :
    ∃ gs, hnpForCurve a b curve (some (some n)) lcg f factory oracle = .ok gs :=
  hnpForCurve_total a b curve n lcg f factory oracle hlen hf hp hmeta hrows

/-- what is excluded by `r ∈ [1, n-1]`: with `r1 ≡ 0 (mod n)` the solver model (like the real
`Cr50U2fGuesses`) raises ZeroDivisionError as soon as a reduced row passes the congruence test. -/
theorem cr50_solver_raises :
    solveCall ⟨[], fun _ => none⟩ ⟨fun _ => [[3, 0, 256, 0]], 0⟩
      (.cr50 (4294967291, 1979693995, 2619613418) (1, 1, 0) 4294967291) = .error .zeroDivision :=
  solveCall_cr50_raises

/-- the shipped `CONSTANT_FACTORY` has positive size fields. -/
example : ∀ m ∈ Consts.lcgMeta, 0 < m.2.2.1 ∧ 0 < m.2.2.2.1 ∧ 0 < m.2.2.2.2.1 := by decide +kernel

/-- ★ **`CheckAllECDSASigs` with the solver models, end to end.** On a call satisfying `SigWFR` — the
property's hypotheses: curve objects of `CURVE_FACTORY`, every signature with a known curve id has
`r, s ∈ [1, n-1]`, ANY hash, ANY issuer key, plus well-formed oracles (`set` orders, floats ≥ 1) —
the entry-point model returns, and every solver call recorded by every registered nonce check
returns in the solver model, for every `lll.reduce` answer of the right shape, every float value
and every constant table with positive size fields. -/
theorem checkAllECDSASigs_solver_total (p : EcParams) (O : SigOracle) (st : SigState XTable)
    (sarts : List SigArt) (hwf : SigWFR p O st sarts) :
    ∃ run, checkAllECDSASigsFull p O st sarts = .ok run ∧ TotInv' run.state ∧
      ∀ (lcg : List LcgMeta), (∀ m ∈ lcg, MetaOk m) → ∀ (S : SolverOracle),
        (∀ cid j kk, LllShape (S cid j kk)) →
        ∀ (j : Nat) writes calls, run.outs[j]? = some (StepOut.direct writes calls) →
          ∃ a, solveAll (envOf lcg namedFactory) S calls = .ok a := by
  have hwf' := hwf.toWF'
  have hzip : ∀ cj ∈ ecdsaAll.zipIdx, ecdsaAll[cj.2]? = some cj.1 := fun cj hcj => by
    have := List.mem_zipIdx hcj
    simp only [Nat.zero_le, Nat.zero_add, Nat.sub_zero, true_and] at this
    rw [List.getElem?_eq_getElem this.1]; exact congrArg some this.2.symm
  obtain ⟨outs, st', hsteps, hi', hfor⟩ := sigStepsG_total_any hwf' ecdsaAll.zipIdx hzip
    st ⟨hwf.factory, hwf.curves, hwf.tables⟩
  have hinv : SigInv st.factory st := ⟨hwf.factory, by
    rw [curvesOf_ids hwf.curves]; exact C02S.namedFactory_ids.1, fun cid obj hm => ⟨obj, hm, rfl⟩⟩
  obtain ⟨r, hbk⟩ := checkArtifacts_ok .repaired Consts.libVersion ecAll
    (mkSteps ecdsaAll (sigVerdictAt outs) (sigInnerAt outs))
    (fun s hs => by
      obtain ⟨j, c, _, rfl⟩ := mem_mkSteps hs
      exact ⟨fun i => sigVerdictAt_factors hinv hsteps j i, fun jj k => sigInnerAt_factors outs j jj k⟩)
    (sarts.map SigArt.art)
  refine ⟨⟨r, outs, st'⟩, ?_, hi', ?_⟩
  · unfold checkAllECDSASigsFull checkAllECDSASigsFullG
    rw [hsteps]
    simp only
    have : checkAllECDSASigs .repaired (sigVerdictAt outs) (sigInnerAt outs) (sarts.map SigArt.art) =
        .ok r := hbk
    rw [this]
  · intro lcg hlcg S hS j writes calls hj
    simp only at hj
    obtain ⟨cj, hcj, sti, hsti, hstep⟩ := Bsgs.forall₂_getElem? hfor j _ hj
    have hmem : cj ∈ ecdsaAll.zipIdx := List.mem_of_getElem? hcj
    have hidx : cj.2 = j := by
      have hlt : j < ecdsaAll.zipIdx.length := (List.getElem?_eq_some_iff.mp hcj).1
      rw [List.getElem?_eq_getElem hlt] at hcj
      injection hcj with hcj
      rw [← hcj]; simp
    have hc := hzip cj hmem
    rw [hidx] at hc hstep
    exact step_calls_solved hwf lcg hlcg S hS j cj.1 hc sti hsti _ hstep writes calls rfl

end solver

/-! ## Non-vacuity -/

/-- keys with degenerate coordinates on TWO named curves (secp256r1 id 2, secp256k1 id 6), mixed with
valid keys, an unknown id and a binary-field id: `(1, p)` (the `Multiply(·, 2)` failure point),
`(0, 0)`, `(p, p)`, `G`, `G` with `x + p` (equal to `G` up to reduction), a 600-bit off-curve pair. -/
def degenerateKeys : List Artifact :=
  [⟨TestInfo.empty, 2, (1, secp256r1.p)⟩,
   ⟨TestInfo.empty, 2, (secp256r1.gx.toNat, secp256r1.gy.toNat)⟩,
   ⟨TestInfo.empty, 2, (secp256r1.gx.toNat + secp256r1.p, secp256r1.gy.toNat)⟩,
   ⟨TestInfo.empty, 6, (0, 0)⟩, ⟨TestInfo.empty, 6, (secp256k1.p, secp256k1.p)⟩,
   ⟨TestInfo.empty, 6, (0, 3 * secp256k1.p)⟩,
   ⟨TestInfo.empty, 2, (2 ^ 200 * 2 ^ 200 * 2 ^ 200, 2 ^ 200 * 2 ^ 200 * 2 ^ 200 + 1)⟩,
   ⟨TestInfo.empty, 0, (1, 2)⟩, ⟨TestInfo.empty, 7, (5, 7)⟩]

/-- `ECWF'` holds for them with the REAL parameters (`2**32`, `2**24`) and fresh curve objects — while
`ECWF` does not (`(1, p)` is neither on secp256r1 nor reduced). -/
theorem degenerate_wf : ECWF' EcParams.real someFloats freshTables degenerateKeys :=
  ⟨by simp [freshTables],
   forall₂_const (fun _ => (3, 1)) ecFactory (fun _ _ _ => ⟨by decide, by decide⟩),
   forall₂_const (fun _ => 4096) ecFactory (fun _ _ _ => by decide)⟩

example : ∃ arts' r sts', checkAllECFull EcParams.real someFloats freshTables degenerateKeys =
    .ok ((arts', r), sts') ∧ sts'.length = ecFactory.length :=
  checkAllEC_total_any _ _ _ _ degenerate_wf

example : ¬ ECWF EcParams.real someFloats freshTables degenerateKeys := by
  intro h
  have := h.points ⟨TestInfo.empty, 2, (1, secp256r1.p)⟩ (by simp [degenerateKeys]) secp256r1
    (by decide +kernel)
  exact absurd this.1 (by decide +kernel)

/-! ### a well-formed `CheckAllECDSASigs` call whose issuer key is INVALID -/

section sigs
open Paranoid.EcdsaChecks

/-- two secp256r1 signatures (`r, s` = `(1, 1)`, `(2, 3)`; hashes of 1 and 2 bytes) of ONE issuer whose
key `(1, p)` is off the curve and unreduced, and a signature with the unknown curve id 0. -/
def badIssuerSigs : List SigArt :=
  [⟨TestInfo.empty, ⟨2, [1], int2bytes secp256r1.p, [1], [1], [7]⟩⟩,
   ⟨TestInfo.empty, ⟨2, [1], int2bytes secp256r1.p, [2], [3], [9, 9]⟩⟩,
   ⟨TestInfo.empty, ⟨0, [1], [2], [3], [4], [5]⟩⟩]

def badIssuerGroup : Nat → GroupOracle := fun cid =>
  if cid = 2 then ⟨fun j => if j = 0 then [(1, 1, 7), (2, 3, 2313)] else [], fun _ _ => [], []⟩
  else ⟨fun _ => [], fun _ _ => [], []⟩

def badIssuerOracle : SigOracle := ⟨fun _ => badIssuerGroup, fun _ => someFloats⟩

theorem badIssuer_consistent :
    checkConsistent .cr50 badIssuerGroup (badIssuerSigs.map SigArt.sig) namedFactory = true := by
  decide +kernel

/-- `SigWFR` (the property's hypotheses) is satisfiable with the REAL parameters, fresh curve objects
and an INVALID issuer key — `SigWF` is not (its `inner` clause requires valid issuer keys). -/
theorem badIssuer_wf :
    SigWFR EcParams.real badIssuerOracle (SigState.fresh listImpl) badIssuerSigs where
  factory := (C02S.namedFactory_ok (by
    intro c hc
    simp only [List.mem_cons, List.not_mem_nil, or_false] at hc
    rcases hc with rfl | rfl | rfl | rfl | rfl | rfl | rfl | rfl | rfl
    · exact C11Primes.secp256r1_p_prime
    · exact C11Primes.secp384r1_p_prime
    · exact C11Primes.secp192r1_p_prime
    · exact C11Primes.secp224r1_p_prime
    · exact C11Primes.secp521r1_p_prime
    · exact C11Primes.secp256k1_p_prime
    · exact C11Primes.brainpoolP256r1_p_prime
    · exact C11Primes.brainpoolP384r1_p_prime
    · exact C11Primes.brainpoolP512r1_p_prime)).1
  curves := rfl
  tables := by simp [SigState.fresh]
  uniq := fun _ _ _ _ _ => (consistent_of_check .cr50 badIssuerGroup _ namedFactory badIssuer_consistent).1
  range := by
    intro sa hsa obj hobj
    simp only [badIssuerSigs, List.mem_cons, List.not_mem_nil, or_false] at hsa
    rw [C02S.namedFactory_eq] at hobj
    simp only [List.mem_cons, Prod.mk.injEq, Option.some.injEq, reduceCtorEq, and_false,
      List.not_mem_nil, or_false] at hobj
    rcases hsa with rfl | rfl | rfl
    · rcases hobj with ⟨h, rfl⟩ | ⟨h, rfl⟩ | ⟨h, rfl⟩ | ⟨h, rfl⟩ | ⟨h, rfl⟩ | ⟨h, rfl⟩ | ⟨h, rfl⟩ | ⟨h, rfl⟩ | ⟨h, rfl⟩
      · unfold SigRange; decide +kernel
      all_goals (exact absurd h (by decide))
    · rcases hobj with ⟨h, rfl⟩ | ⟨h, rfl⟩ | ⟨h, rfl⟩ | ⟨h, rfl⟩ | ⟨h, rfl⟩ | ⟨h, rfl⟩ | ⟨h, rfl⟩ | ⟨h, rfl⟩ | ⟨h, rfl⟩
      · unfold SigRange; decide +kernel
      all_goals (exact absurd h (by decide))
    · rcases hobj with ⟨h, _⟩ | ⟨h, _⟩ | ⟨h, _⟩ | ⟨h, _⟩ | ⟨h, _⟩ | ⟨h, _⟩ | ⟨h, _⟩ | ⟨h, _⟩ | ⟨h, _⟩ <;>
        exact absurd h (by decide)
  innerWk := fun _ _ _ _ =>
    forall₂_const (fun _ => (3, 1)) ecFactory (fun _ _ _ => ⟨by decide, by decide⟩)
  innerSd := fun _ _ _ _ => forall₂_const (fun _ => 4096) ecFactory (fun _ _ _ => by decide)

/-- the issuer key of the first two signatures is not a valid key of secp256r1. -/
example : isValidPublicKey secp256r1 (.aff 1 secp256r1.p) = .ok false := by decide +kernel

example : ∃ run, checkAllECDSASigsFull EcParams.real badIssuerOracle (SigState.fresh listImpl)
    badIssuerSigs = .ok run :=
  let ⟨run, h, _⟩ := checkAllECDSASigs_solver_total _ _ _ _ badIssuer_wf
  ⟨run, h⟩

end sigs

end Paranoid.C18Ec
