/-
Props/C19.lean — "Number-theory, lattice and linear-algebra helpers return only true solutions".
Property theorems only; helper lemmas live in Proofs/NTheory.lean (ntheory_util.py),
Proofs/LinAlg.lean (linalg_util.py) and Proofs/Lattice.lean (lattice_suite.py, util.py,
small_roots.py guards).

Every statement is universally quantified over its integer arguments (no size bound).
`FastProduct` / `ExtendedProductTree` are the subject of C03 and are not repeated here.
-/
import ParanoidModel.Proofs.NTheory
import ParanoidModel.Proofs.Lattice
import ParanoidModel.Proofs.LinAlg
namespace Paranoid.C19
open Paranoid Paranoid.NT

/-! ## ntheory_util.Inverse2exp -/

/-- `Inverse2exp(n, k)` returns `None` exactly for even `n`. -/
theorem inverse2exp_none_iff (n k : Nat) : inverse2exp n k = none ↔ n % 2 = 0 :=
  inverse2exp_eq_none_iff n k

/-- a returned value `a` satisfies the defining congruence `a·n ≡ 1 (mod 2^k)`, for every `k`
(for `k ≤ 2` the code returns the unreduced `n % 4`, which still satisfies it). -/
theorem inverse2exp_sound (n k a : Nat) (h : inverse2exp n k = some a) :
    a * n ≡ 1 [MOD 2 ^ k] :=
  (inverse2exp_correct n k a h).2

/-- odd `n` always gets an inverse. -/
theorem inverse2exp_complete (n k : Nat) (hn : n % 2 = 1) :
    ∃ a, inverse2exp n k = some a ∧ a * n ≡ 1 [MOD 2 ^ k] := by
  cases h : inverse2exp n k with
  | none => rw [inverse2exp_eq_none_iff] at h; omega
  | some a => exact ⟨a, rfl, (inverse2exp_correct n k a h).2⟩

/-- for `k ≥ 2` the inverse is reduced: `a < 2^k`. -/
theorem inverse2exp_reduced (n k a : Nat) (hk : 2 ≤ k) (h : inverse2exp n k = some a) :
    a < 2 ^ k :=
  inverse2exp_lt n k a hk h

/-! ## ntheory_util.InverseSqrt2exp -/

/-- a returned value satisfies the docstring's equation `1 == a*a*n % 2**k`, for every `k`
(loop branch `k ≥ 3` and enumeration branch `k < 3`). -/
theorem inverseSqrt2exp_sound (n k a : Nat) (h : inverseSqrt2exp n k = some a) :
    a * a * n % 2 ^ k = 1 :=
  NT.inverseSqrt2exp_sound n k a h

/-- `None` is returned exactly when the equation has no solution at all, for every `k`. -/
theorem inverseSqrt2exp_none_iff (n k : Nat) :
    inverseSqrt2exp n k = none ↔ ∀ a, a * a * n % 2 ^ k ≠ 1 :=
  NT.inverseSqrt2exp_none_iff n k

/-- for `k ≥ 3`: a value is returned iff `n ≡ 1 (mod 8)`. -/
theorem inverseSqrt2exp_some_iff (n k : Nat) (hk : 3 ≤ k) :
    (∃ a, inverseSqrt2exp n k = some a ∧ a * a * n % 2 ^ k = 1) ↔ n % 8 = 1 := by
  rw [← inverseSqrt2exp_isSome_iff n k hk]
  constructor
  · rintro ⟨a, h, _⟩; simp [h]
  · intro h
    obtain ⟨a, ha⟩ := Option.isSome_iff_exists.1 h
    exact ⟨a, ha, NT.inverseSqrt2exp_sound n k a ha⟩

/-- the returned value is reduced modulo `2^k` (`k ≥ 1`). -/
theorem inverseSqrt2exp_reduced (n k a : Nat) (hk : 1 ≤ k) (h : inverseSqrt2exp n k = some a) :
    a < 2 ^ k := by
  rcases inverseSqrt2exp_lt n k a h with h | h
  · exact h
  · omega

/-- edge `k = 0`: `x % 1 == 1` is never true, so the function answers `None` although every
integer is a solution modulo `2^0 = 1`; this is the literal reading of the docstring. -/
theorem inverseSqrt2exp_k0 (n : Nat) : inverseSqrt2exp n 0 = none :=
  inverseSqrt2exp_zero n

/-! ## ntheory_util.Sqrt2exp -/

/-- even `n` raises `ValueError`. -/
theorem sqrt2exp_even (n k : Nat) (h : n % 2 = 0) : sqrt2exp n k = .error .valueError :=
  NT.sqrt2exp_even n k h

/-- odd `n`, every `k`: the call succeeds (the `2**k - None` path is unreachable) and the
result lists exactly the square roots of `n` modulo `2^k`: every element is a reduced square
root, the elements are pairwise distinct, and every reduced square root is listed. -/
theorem sqrt2exp_exact (n k : Nat) (hn : n % 2 = 1) :
    ∃ l, sqrt2exp n k = .ok l ∧
      (∀ x ∈ l, x < 2 ^ k ∧ x * x ≡ n [MOD 2 ^ k]) ∧ l.Nodup ∧
      (∀ x, x < 2 ^ k → x * x ≡ n [MOD 2 ^ k] → x ∈ l) := by
  obtain ⟨l, h, hs, _⟩ := sqrt2exp_odd n k hn
  exact ⟨l, h, hs⟩

/-- negative `k` raises `ValueError` (`sqrt2expZ` is `Sqrt2exp` with a signed `k`). -/
theorem sqrt2exp_negative_k (n : Nat) (k : Int) (hk : k < 0) :
    sqrt2expZ n k = .error .valueError ∧ ∀ k' : Nat, sqrt2expZ n (k' : Int) = sqrt2exp n k' :=
  ⟨sqrt2expZ_neg n k hk, sqrt2expZ_nonneg n⟩

/-- for `k ≥ 3` there are none or exactly four roots. -/
theorem sqrt2exp_count (n k : Nat) (hk : 3 ≤ k) (l : List Nat) (h : sqrt2exp n k = .ok l) :
    l = [] ∨ l.length = 4 := by
  have hn : n % 2 = 1 := by
    by_contra hc
    rw [NT.sqrt2exp_even n k (by omega)] at h
    cases h
  obtain ⟨l', h', _, hc⟩ := sqrt2exp_odd n k hn
  rw [h] at h'
  cases h'
  exact hc hk

/-- the empty list is returned exactly when `n` has no square root modulo `2^k`. -/
theorem sqrt2exp_empty_iff (n k : Nat) (hn : n % 2 = 1) :
    sqrt2exp n k = .ok [] ↔ ¬ ∃ x, x < 2 ^ k ∧ x * x ≡ n [MOD 2 ^ k] := by
  obtain ⟨l, h, hs, _⟩ := sqrt2exp_odd n k hn
  rw [h]
  constructor
  · intro e
    cases e
    rintro ⟨x, hx, hxn⟩
    exact absurd (hs.2.2 x hx hxn) (by simp)
  · intro hno
    cases l with
    | nil => rfl
    | cons x l => exact absurd ⟨x, hs.1 x (by simp)⟩ hno

/-! ## ntheory_util.ContinuedFraction -/

/-- the quotients are Euclid's and the `(r, t)` are the convergents given by the recurrence
`r_i = r_{i-1} q_i + r_{i-2}`, `t_i = t_{i-1} q_i + t_{i-2}` from `(1, 0, 0, 1)`. The model runs
on `2·bitlen(b) + 2` units of fuel; this equation shows the fuel never runs out. -/
theorem continuedFraction_convergents (a b : Nat) :
    continuedFraction a b = convergents (euclidQuots a b) 1 0 0 1 :=
  continuedFraction_eq a b

/-- first components = Euclid's quotient sequence. -/
theorem continuedFraction_quotients (a b : Nat) :
    (continuedFraction a b).map (·.1) = euclidQuots a b := by
  rw [continuedFraction_eq, convergents_map_fst]

/-- consecutive convergents: `r_{i+1}·t_i − r_i·t_{i+1} = (−1)^i`. -/
theorem continuedFraction_det (a b i : Nat) (x y : Nat × Nat × Nat)
    (hx : (continuedFraction a b)[i]? = some x) (hy : (continuedFraction a b)[i + 1]? = some y) :
    (y.2.1 : Int) * x.2.2 - (x.2.1 : Int) * y.2.2 = (-1) ^ i := by
  have := altDet_index _ _ _ _ (continuedFraction_altDet a b) i x y hx hy
  simpa using this

/-- every convergent is in lowest terms. -/
theorem continuedFraction_coprime (a b : Nat) (x : Nat × Nat × Nat)
    (hx : x ∈ continuedFraction a b) : Nat.Coprime x.2.1 x.2.2 :=
  altDet_coprime _ (-1) 1 0 (Or.inr rfl) (continuedFraction_altDet a b) x hx

/-- the last convergent is `a / b` in lowest terms: `r = a / gcd`, `t = b / gcd`; in particular
`r·b = t·a`. -/
theorem continuedFraction_last (a b : Nat) (x : Nat × Nat × Nat)
    (h : (continuedFraction a b).getLast? = some x) :
    x.2.1 * Nat.gcd a b = a ∧ x.2.2 * Nat.gcd a b = b ∧ x.2.1 * b = x.2.2 * a ∧
      Nat.Coprime x.2.1 x.2.2 := by
  obtain ⟨h1, h2⟩ := NT.continuedFraction_last a b x h
  refine ⟨h1, h2, ?_, continuedFraction_coprime a b x (List.mem_of_getLast? h)⟩
  calc x.2.1 * b = x.2.1 * (x.2.2 * Nat.gcd a b) := by rw [h2]
    _ = x.2.2 * (x.2.1 * Nat.gcd a b) := by ring
    _ = x.2.2 * a := by rw [h1]

/-- the expansion is empty exactly for `b = 0`. -/
theorem continuedFraction_nil_iff (a b : Nat) : continuedFraction a b = [] ↔ b = 0 :=
  NT.continuedFraction_nil_iff a b

/-! ## ntheory_util.DivmodRounded

HISTORICAL SECTION.  `divmodRounded` is the function as it was BEFORE fix cdbbb74 (D16); /repo
HEAD ships `divmodRoundedR` (`d = b // 2 if b > 0 else (b + 1) // 2`).  Every theorem below that
mentions `divmodRounded` (without `R`) describes code that no longer exists in /repo and gets no
correspondence run; they are kept as the refutation that motivated the fix.  The full
specification of the SHIPPED function (identity, exact range for both signs of `b`, tie rule,
zero divisor, totality, the callers' power-of-two case) is in Props/C19Shipped.lean;
`divmodRounded_repaired` and `divmodRounded_repair_conservative` below are about the shipped
function. -/

/-- HISTORICAL — about the PRE-FIX `DivmodRounded` (`d = (b + 1) // 2`), which /repo no longer ships (fix cdbbb74); kept as the refutation that motivated the fix. Shipped function: Props/C19Shipped.lean. `b = 0` raises `ZeroDivisionError`; otherwise a pair is returned and `q·b + r = a`. -/
theorem divmodRounded_identity (a b q r : Int) (h : divmodRounded a b = .ok (q, r)) :
    b ≠ 0 ∧ q * b + r = a :=
  divmodRounded_eq a b q r h

/-- HISTORICAL — about the PRE-FIX `DivmodRounded` (`d = (b + 1) // 2`), which /repo no longer ships (fix cdbbb74); kept as the refutation that motivated the fix. Shipped function: Props/C19Shipped.lean. -/
theorem divmodRounded_zero (a : Int) : divmodRounded a 0 = .error .zeroDivision :=
  NT.divmodRounded_zero a

/-- HISTORICAL — about the PRE-FIX `DivmodRounded` (`d = (b + 1) // 2`), which /repo no longer ships (fix cdbbb74); kept as the refutation that motivated the fix. Shipped function: Props/C19Shipped.lean. -/
theorem divmodRounded_total (a b : Int) (hb : b ≠ 0) : ∃ q r, divmodRounded a b = .ok (q, r) :=
  ⟨_, _, divmodRounded_ok a b hb⟩

/-- HISTORICAL — about the PRE-FIX `DivmodRounded` (`d = (b + 1) // 2`), which /repo no longer ships (fix cdbbb74); kept as the refutation that motivated the fix. Shipped function: Props/C19Shipped.lean. Exact remainder range, `b > 0`: `−b ≤ 2r < b` for even `b`, `−(b+1) ≤ 2r < b−1` for odd `b`. -/
theorem divmodRounded_range_pos (a b q r : Int) (hb : 0 < b) (h : divmodRounded a b = .ok (q, r)) :
    -(b + b % 2) ≤ 2 * r ∧ 2 * r < b - b % 2 :=
  NT.divmodRounded_range_pos a b q r hb h

/-- HISTORICAL — about the PRE-FIX `DivmodRounded` (`d = (b + 1) // 2`), which /repo no longer ships (fix cdbbb74); kept as the refutation that motivated the fix. Shipped function: Props/C19Shipped.lean. Exact remainder range, `b < 0` (Python floor semantics): `b < 2r ≤ −b`. -/
theorem divmodRounded_range_neg (a b q r : Int) (hb : b < 0) (h : divmodRounded a b = .ok (q, r)) :
    b < 2 * r ∧ 2 * r ≤ -b :=
  NT.divmodRounded_range_neg a b q r hb h

/-- HISTORICAL — about the PRE-FIX `DivmodRounded` (`d = (b + 1) // 2`), which /repo no longer ships (fix cdbbb74); kept as the refutation that motivated the fix. Shipped function: Props/C19Shipped.lean. The docstring's claim "q = round(a/b)": `q` is an integer nearest to `a/b`.
Not asserted: false for odd `b > 0` for the pre-fix function (D16), see
`divmodRounded_round_fails`; TRUE for the shipped function (`divmodRounded_repaired`). -/
def DivmodRoundedRounds : Prop :=
  ∀ a b q r : Int, divmodRounded a b = .ok (q, r) → IsNearest a b q

/-- HISTORICAL — about the PRE-FIX `DivmodRounded` (`d = (b + 1) // 2`), which /repo no longer ships (fix cdbbb74); kept as the refutation that motivated the fix. Shipped function: Props/C19Shipped.lean. Proved part: even divisors (either sign) and all negative divisors. -/
theorem divmodRounded_round_partial (a b q r : Int) (hb : b % 2 = 0 ∨ b < 0)
    (h : divmodRounded a b = .ok (q, r)) : IsNearest a b q := by
  rcases hb with hb | hb
  · exact divmodRounded_nearest_even a b q r hb h
  · exact divmodRounded_nearest_neg a b q r hb h

/-- HISTORICAL — about the PRE-FIX `DivmodRounded` (`d = (b + 1) // 2`), which /repo no longer ships (fix cdbbb74); kept as the refutation that motivated the fix. Shipped function: Props/C19Shipped.lean. D16: `DivmodRounded(1, 3)` WAS `(1, -2)` although `round(1/3) = 0`
(now `(0, 1)`: `C19Shipped.divmodRounded_ne_prefix_witness`). -/
theorem divmodRounded_one_three : divmodRounded 1 3 = .ok (1, -2) := by decide +kernel

/-- HISTORICAL — about the PRE-FIX `DivmodRounded` (`d = (b + 1) // 2`), which /repo no longer ships (fix cdbbb74); kept as the refutation that motivated the fix. Shipped function: Props/C19Shipped.lean. -/
theorem divmodRounded_round_fails : ¬ DivmodRoundedRounds := by
  intro h
  have := h 1 3 1 (-2) divmodRounded_one_three 0
  revert this
  decide +kernel

/-- HISTORICAL — about the PRE-FIX `DivmodRounded` (`d = (b + 1) // 2`), which /repo no longer ships (fix cdbbb74); kept as the refutation that motivated the fix. Shipped function: Props/C19Shipped.lean. Even `b > 0`: `q = ⌊a/b + 1/2⌋` (round half up, not Python's
round-half-even).  Shipped function, every `b ≠ 0`: `C19Shipped.divmodRounded_half_up`. -/
theorem divmodRounded_half_up (a b q r : Int) (hb : 0 < b) (hb2 : b % 2 = 0)
    (h : divmodRounded a b = .ok (q, r)) : q = Int.fdiv (2 * a + b) (2 * b) :=
  divmodRounded_quot_even a b q r hb hb2 h

/-- HISTORICAL — about the PRE-FIX `DivmodRounded` (`d = (b + 1) // 2`), which /repo no longer ships (fix cdbbb74); kept as the refutation that motivated the fix. Shipped function: Props/C19Shipped.lean. Shipped function: `C19Shipped.divmodRounded_pow2` (every power of
two, `1` included).  The callers' case (`CheckContinuedFraction` passes `x = 2^(bitlen(n)/2)`): for a power of
two `≥ 2` the result is exact: identity, symmetric range, nearest integer, ties up. For
`x = 2^0 = 1` (only when `n < 2`) the divisor is odd and `DivmodRounded(a, 1) = (a+1, -1)`. -/
theorem divmodRounded_pow2 (a : Int) (j : Nat) :
    ∃ q r, divmodRounded a (2 ^ (j + 1)) = .ok (q, r) ∧ q * 2 ^ (j + 1) + r = a ∧
      -(2 : Int) ^ (j + 1) ≤ 2 * r ∧ 2 * r < 2 ^ (j + 1) ∧ IsNearest a (2 ^ (j + 1)) q ∧
      q = Int.fdiv (2 * a + 2 ^ (j + 1)) (2 * 2 ^ (j + 1)) := by
  have hpos : (0 : Int) < 2 ^ (j + 1) := by positivity
  have heven : (2 : Int) ^ (j + 1) % 2 = 0 := by
    rw [pow_succ]; exact Int.mul_emod_left _ _
  obtain ⟨q, r, h⟩ := divmodRounded_total a (2 ^ (j + 1)) (ne_of_gt hpos)
  have hr := NT.divmodRounded_range_pos a _ q r hpos h
  rw [heven] at hr
  exact ⟨q, r, h, (divmodRounded_eq a _ q r h).2, by omega, by omega,
    divmodRounded_nearest_even a _ q r heven h, divmodRounded_quot_even a _ q r hpos heven h⟩

/-- HISTORICAL — about the PRE-FIX `DivmodRounded` (`d = (b + 1) // 2`), which /repo no longer ships (fix cdbbb74); kept as the refutation that motivated the fix. Shipped function: Props/C19Shipped.lean. The shipped function returns `(a, 0)`
(`C19Shipped.divmodRounded_by_one`). -/
theorem divmodRounded_by_one (a : Int) : divmodRounded a 1 = .ok (a + 1, -1) := by
  rw [divmodRounded_ok a 1 (by decide)]
  have e : dmrOffset 1 = 1 := by decide
  rw [e]
  simp [Int.fmod_one]

/-- SHIPPED function (/repo HEAD since fix cdbbb74 = `fixes/D16-divmod-rounded.diff`,
`d = b // 2 if b > 0 else (b + 1) // 2`; full specification in Props/C19Shipped.lean):
the docstring holds for every divisor: identity, `|2r| ≤ |b|`, nearest integer. (The
one-line repair `d = b // 2` proposed in DESIGN D16 would break negative odd `b`.) -/
theorem divmodRounded_repaired (a b q r : Int) (h : divmodRoundedR a b = .ok (q, r)) :
    b ≠ 0 ∧ q * b + r = a ∧ 2 * |r| ≤ |b| ∧ IsNearest a b q :=
  ⟨(divmodRoundedR_spec a b q r h).1, (divmodRoundedR_spec a b q r h).2.1,
    (divmodRoundedR_spec a b q r h).2.2, divmodRoundedR_nearest a b q r h⟩

/-- the fix cdbbb74 is invisible to every caller (even or negative divisors are unchanged:
shipped = pre-fix there). -/
theorem divmodRounded_repair_conservative (a b : Int) (hb : b % 2 = 0 ∨ b < 0) :
    divmodRoundedR a b = divmodRounded a b :=
  divmodRoundedR_eq_pinned a b hb

/-! ## ntheory_util.Sieve -/

/-- `Sieve(n)` is exactly the increasing list of primes below `n`. -/
theorem sieve_primes (n : Nat) : sieve n = (List.range n).filter Nat.Prime :=
  sieve_eq n

/-- the table reads of the outer loop are in bounds (the model's `table[i]?` never misses). -/
theorem sieve_reads_in_bounds (n i : Nat) (h2 : 2 ≤ i) (hi : i ≤ isqrt n) : i < n :=
  sieve_index_in_bounds n i h2 hi

/-! ## Non-vacuity -/

example : inverse2exp 4091 12 = some 819 := by decide +kernel
example : inverseSqrt2exp 17 12 = some 345 := by decide +kernel
example : inverseSqrt2exp 3 2 = none ∧ inverseSqrt2exp 5 12 = none := by decide +kernel
example : sqrt2exp 17 6 = .ok [41, 23, 55, 9] := by decide +kernel
example : sqrt2exp 3 7 = .ok [] ∧ sqrt2exp 1 2 = .ok [1, 3] := by decide +kernel
example : continuedFraction 415 93 = [(4, 4, 1), (2, 9, 2), (6, 58, 13), (7, 415, 93)] := by
  decide +kernel
example : divmodRounded 7 4 = .ok (2, -1) ∧ divmodRounded (-7) (-4) = .ok (2, 1) := by
  decide +kernel
example : divmodRoundedR 1 3 = .ok (0, 1) ∧ divmodRoundedR 2 (-3) = .ok (-1, -1) := by
  decide +kernel
example : sieve 30 = [2, 3, 5, 7, 11, 13, 17, 19, 23, 29] := by decide +kernel

/-! # linalg_util: upper_triangular_solve, echelon_form steps, solve_right

Model: Model/LinAlg.lean (namespace `Paranoid.LA`, variants `pinned` / `repaired` of the
zero-pivot row move, D7), lemmas: Proofs/LinAlg.lean. -/

section LinAlg
open Paranoid.LA

/-! ## (a) `upper_triangular_solve` -/

/-- For ANY integer matrix `a` and vector `b` (no triangularity, no size bound): a returned
vector `x` has one well-formed rational per row, and for every row `i`
`a[i][i]·x[i] + Σ_{j>i} a[i][j]·x[j] = b[i]` — the upper-triangular part of `a` applied to `x`
is `b` — and the diagonal entry `a[i][i]` is not zero. -/
theorem uts_sound (a : List (List Int)) (b : List Int) (x : List PyQ)
    (h : upperTriangularSolve a b = .ok (some x)) :
    x.length = a.length ∧ b.length = a.length ∧ (∀ q ∈ x, q.den ≠ 0) ∧
    ∀ i, i < a.length →
      (∀ row bi, a[i]? = some row → b[i]? = some bi →
        dotQ (row.drop i) ((x.map PyQ.toRat).drop i) = (bi : ℚ)) ∧
      (∃ row v, a[i]? = some row ∧ row[i]? = some v ∧ v ≠ 0) :=
  uts_some a b x h

/-- … hence `a x = b` when `a` is upper triangular (entries left of the diagonal are 0). -/
theorem uts_sound_triangular (a : List (List Int)) (b : List Int) (x : List PyQ)
    (htri : ∀ (i : Nat) (row : List Int), a[i]? = some row → ZeroTo i row)
    (h : upperTriangularSolve a b = .ok (some x)) : Sat (x.map PyQ.toRat) a b := by
  obtain ⟨_, h2, _, h4⟩ := uts_some a b x h
  unfold Sat
  rw [List.forall₂_iff_get]
  refine ⟨h2.symm, ?_⟩
  intro i hi hi'
  unfold RowSat
  simp only [List.get_eq_getElem]
  rw [dotQ_drop_zero i _ _ (htri i _ (List.getElem?_eq_getElem hi))]
  exact (h4 i hi).1 _ _ (List.getElem?_eq_getElem hi) (List.getElem?_eq_getElem hi')

/-- `None` is returned only when some diagonal entry is zero … -/
theorem uts_none_diag (a : List (List Int)) (b : List Int)
    (h : upperTriangularSolve a b = .ok none) : ∃ i, i < a.length ∧ getRC a i i = .ok 0 := by
  obtain ⟨i, hi, row, h1, h2⟩ := uts_none a b h
  exact ⟨i, hi, by simp [getRC, h1, h2]⟩

/-- … and on a square matrix with `len(b) = len(a)` the function does not raise and returns
`None` IF AND ONLY IF some diagonal entry is zero. -/
theorem uts_none_iff (a : List (List Int)) (b : List Int) (hne : a ≠ [])
    (hsq : ∀ row ∈ a, row.length = a.length) (hb : b.length = a.length) :
    (∃ r, upperTriangularSolve a b = .ok r) ∧
    (upperTriangularSolve a b = .ok none ↔ ∃ i, i < a.length ∧ getRC a i i = .ok 0) := by
  obtain ⟨r, hr⟩ := uts_total a b hne hsq hb
  refine ⟨⟨r, hr⟩, uts_none_diag a b, ?_⟩
  rintro ⟨i, hi, hz⟩
  cases r with
  | none => exact hr
  | some x =>
    exfalso
    obtain ⟨row, v, h1, h2, h3⟩ := ((uts_some a b x hr).2.2.2 i hi).2
    simp [getRC, h1, h2] at hz
    exact h3 hz

/-- shape errors, exactly as the code: `len(a[0])` on the empty matrix, … -/
theorem uts_empty (b : List Int) : upperTriangularSolve [] b = .error .indexError := rfl

/-- … "Matrix must be square", … -/
theorem uts_not_square (row0 : List Int) (rest : List (List Int)) (b : List Int)
    (h : (row0 :: rest).length ≠ row0.length) :
    upperTriangularSolve (row0 :: rest) b = .error .valueError := by
  simp only [upperTriangularSolve, if_pos h]

/-- … "Number of rows of a must be equal to the length of b". -/
theorem uts_len_mismatch (row0 : List Int) (rest : List (List Int)) (b : List Int)
    (h1 : (row0 :: rest).length = row0.length) (h2 : (row0 :: rest).length ≠ b.length) :
    upperTriangularSolve (row0 :: rest) b = .error .valueError := by
  simp only [upperTriangularSolve, if_neg (not_not.mpr h1), if_pos h2]

example : upperTriangularSolve [[8,7,4,1],[0,20,40,20],[0,0,110,150],[0,0,0,-450]] [45,60,260,-450]
    = .ok (some [⟨5,1⟩, ⟨0,1⟩, ⟨1,1⟩, ⟨1,1⟩]) := by decide +kernel
example : upperTriangularSolve [[2,1],[0,3]] [1,1] = .ok (some [⟨1,3⟩, ⟨1,3⟩]) := by decide +kernel
example : upperTriangularSolve [[2,1],[5,0]] [1,1] = .ok none := by decide +kernel

/-! ## (b) every step of `echelon_form` preserves the solution set -/

/-- One elimination (`b[j] = a[i][i]*b[j] - a[j][i]*b[i]`, `a[j][k] = a[i][i]*a[j][k] -
a[j][i]*a[i][k]`, `a[j][i] = 0`) is the row operation `row_j ← p·row_j − q·row_i` on the
augmented matrix, `p = a[i][i]`, `q = a[j][i]` (for rows that vanish left of column `i`, as
they do at step `i`): for every `x` with at most `ncols` entries
`row_j'·x − b_j' = p·(row_j·x − b_j) − q·(row_i·x − b_i)`; nothing else changes. -/
theorem elim_step_is_row_operation (x : List ℚ) (ncols i j : Nat) (st st' : EchSt) (az : Bool)
    (bl : List Int) (hb : st.b = some bl) (hx : x.length ≤ ncols) (hi : i + 1 ≤ ncols)
    (hzi : ∀ row, st.a[i]? = some row → ZeroTo i row)
    (hzj : ∀ row, st.a[j]? = some row → ZeroTo i row)
    (h : elimRow ncols i j st = .ok (st', az)) :
    ∃ (ri rj rj' : List Int) (p q bi bj : Int),
      st.a[i]? = some ri ∧ st.a[j]? = some rj ∧ ri[i]? = some p ∧ rj[i]? = some q ∧
      bl[i]? = some bi ∧ bl[j]? = some bj ∧
      st'.a = st.a.set j rj' ∧ st'.b = some (bl.set j (p * bj - q * bi)) ∧
      dotQ rj' x - ((p * bj - q * bi : Int) : ℚ) =
        (p : ℚ) * (dotQ rj x - bj) - (q : ℚ) * (dotQ ri x - bi) :=
  elimRow_rowop x ncols i j st st' az bl hb hx hi hzi hzj h

/-- With a non-zero pivot the elimination of a row keeps the solution set
`{x | a x = b}` unchanged. -/
theorem elim_step_preserves_solutions (x : List ℚ) (ncols i j : Nat) (st st' : EchSt) (az : Bool)
    (bl : List Int) (hb : st.b = some bl) (hx : x.length ≤ ncols) (hi : i + 1 ≤ ncols)
    (hij : i ≠ j)
    (hzi : ∀ row, st.a[i]? = some row → ZeroTo i row)
    (hzj : ∀ row, st.a[j]? = some row → ZeroTo i row)
    (hpiv : getRC st.a i i ≠ .ok 0)
    (h : elimRow ncols i j st = .ok (st', az)) :
    ∃ bl', st'.b = some bl' ∧ (Sat x st'.a bl' ↔ Sat x st.a bl) :=
  elimRow_sat_iff x ncols i j st st' az bl hb hx hi hij hzi hzj hpiv h

/-- Moving a row (`b.insert(k, b.pop(i)); a.insert(k, a.pop(i))`, any `i`, any Python index
`k`) permutes the equations: same solution set. -/
theorem row_move_preserves_solutions (x : List ℚ) (st st' : EchSt) (i : Nat) (k : Int)
    (bl : List Int) (hb : st.b = some bl) (hlen : st.a.length = bl.length)
    (h : moveRows st i k = .ok st') :
    ∃ bl', st'.b = some bl' ∧ (Sat x st'.a bl' ↔ Sat x st.a bl) :=
  moveRows_sat_iff x st st' i k bl hb hlen h

/-- The `//=` pass on one row keeps the solution set PROVIDED every division of that row is
exact (`st'.exact = true`, the ghost flag of the model; a zero divisor raises).
Exactness itself (Bareiss/Sylvester) is not proved. -/
theorem division_step_preserves_solutions (x : List ℚ) (ncols i j : Nat) (st st' : EchSt)
    (bl : List Int) (hb : st.b = some bl) (hx : x.length ≤ ncols)
    (hzj : ∀ row, st.a[j]? = some row → ZeroTo (i + 1) row)
    (h : divRow ncols i j st = .ok st') (hex : st'.exact = true) :
    ∃ bl', st'.b = some bl' ∧ (Sat x st'.a bl' ↔ Sat x st.a bl) :=
  divRow_sat_iff x ncols i j st st' bl hb hx hzj h hex

/-- the ghost flag only records exactness: it does not influence what `solve_right` returns. -/
theorem solveRight_eq_fst (v : LaVariant) (a : List (List Int)) (b : List Int) :
    solveRight v a b = (solveRightX v a b).map Prod.fst := by
  unfold solveRight
  cases solveRightX v a b with
  | error e => rfl
  | ok r => cases r; rfl

/-! ## (c) `solve_right` (repaired variant) is sound -/

/-- **Soundness of `solve_right` with fixes/D7-solve-right.diff**, for every matrix shape and
size: if the rational vector `x0` (one entry per column) solves the input system `a x = b`,
`solve_right` returns a vector `xs`, and every `//=` of the elimination was exact, then `xs` IS
`x0`.  No assumption on the rank, on rectangularity or on the pivots: zero pivots, retired
(linearly dependent) rows and the "fewer live rows than columns" tail are all covered. -/
theorem solveRight_sound (row0 : List Int) (rest : List (List Int)) (b : List Int) (x0 : List ℚ)
    (hx0 : x0.length = row0.length) (hsat : Sat x0 (row0 :: rest) b) (xs : List PyQ)
    (h : solveRightX .repaired (row0 :: rest) b = .ok (some xs, true)) :
    xs.map PyQ.toRat = x0 :=
  solveRightX_sound row0 rest b x0 hx0 hsat xs h

/-- … in particular the returned vector satisfies every equation of a consistent system. -/
theorem solveRight_solves (row0 : List Int) (rest : List (List Int)) (b : List Int)
    (hcons : ∃ x0 : List ℚ, x0.length = row0.length ∧ Sat x0 (row0 :: rest) b) (xs : List PyQ)
    (h : solveRightX .repaired (row0 :: rest) b = .ok (some xs, true)) :
    Sat (xs.map PyQ.toRat) (row0 :: rest) b := by
  obtain ⟨x0, hx0, hsat⟩ := hcons
  rw [solveRight_sound row0 rest b x0 hx0 hsat xs h]
  exact hsat

/-- shape errors of `solve_right`, as the code. -/
theorem solveRight_empty (v : LaVariant) (b : List Int) :
    solveRight v [] b = .error .indexError := rfl

theorem solveRight_len_mismatch (v : LaVariant) (row0 : List Int) (rest : List (List Int))
    (b : List Int) (h : (row0 :: rest).length ≠ b.length) :
    solveRight v (row0 :: rest) b = .error .valueError := by
  simp only [solveRight, solveRightX, if_pos h]

theorem solveRight_too_few_rows (v : LaVariant) (row0 : List Int) (rest : List (List Int))
    (b : List Int) (h1 : (row0 :: rest).length = b.length)
    (h2 : (row0 :: rest).length < row0.length) :
    solveRight v (row0 :: rest) b = .error .valueError := by
  simp only [solveRight, solveRightX, if_neg (not_not.mpr h1), if_pos h2]

/-- hypotheses of `solveRight_sound` are satisfiable (upstream test: 5 rows, a dependent row). -/
example : solveRightX .repaired
    [[8,7,4,1],[4,6,7,3],[16,14,8,2],[6,3,4,6],[4,5,8,2]] [45,30,90,40,30]
    = .ok (some [⟨5,1⟩, ⟨0,1⟩, ⟨1,1⟩, ⟨1,1⟩], true) := by decide +kernel

example : Sat [5, 0, 1, 1] [[8,7,4,1],[4,6,7,3],[16,14,8,2],[6,3,4,6],[4,5,8,2]] [45,30,90,40,30] := by
  unfold Sat
  repeat' constructor
  all_goals (unfold RowSat; norm_num [dotQ])

/-! ## D7 (HISTORICAL): the pre-fix zero-pivot move lost a live row

`solveRight .pinned` is `solve_right` as it was BEFORE fix 275bdf4; /repo HEAD ships the
`.repaired` variant (`a.insert(nrows - 1, a.pop(i))`), for which `solveRight_sound` /
`solveRight_solves` above and `solveRight_repaired_d7` below are stated.  The two `pinned`
theorems get no correspondence run any more; they are kept as the refutation that motivated the
fix. -/

/-- HISTORICAL — about the PRE-FIX `echelon_form` (`a.insert(nrows, a.pop(i))`), which /repo no longer ships (fix 275bdf4); kept as the refutation that motivated the fix. The smallest failing system found (5×4, entries 0/1): the
pre-fix code answered `(0, 0, 1, 0)` … -/
theorem solveRight_pinned_d7 :
    solveRight .pinned [[0,0,0,0],[0,0,1,0],[1,0,0,0],[0,0,1,1],[0,1,0,0]] [0,1,0,0,0]
      = .ok (some [⟨0,1⟩, ⟨0,1⟩, ⟨1,1⟩, ⟨0,1⟩]) := by decide +kernel

/-- HISTORICAL — about the PRE-FIX `echelon_form` (`a.insert(nrows, a.pop(i))`), which /repo no longer ships (fix 275bdf4); kept as the refutation that motivated the fix. … which violates the 4th equation `x₂ + x₃ = 0` of this consistent
system (solution `(0, 0, 1, -1)`): the property FAILED on the pre-fix tree. -/
theorem solveRight_pinned_d7_wrong :
    Sat [0, 0, 1, -1] [[0,0,0,0],[0,0,1,0],[1,0,0,0],[0,0,1,1],[0,1,0,0]] [0,1,0,0,0] ∧
    ¬ Sat (([⟨0,1⟩, ⟨0,1⟩, ⟨1,1⟩, ⟨0,1⟩] : List PyQ).map PyQ.toRat)
      [[0,0,0,0],[0,0,1,0],[1,0,0,0],[0,0,1,1],[0,1,0,0]] [0,1,0,0,0] := by
  constructor
  · unfold Sat
    repeat' constructor
    all_goals (unfold RowSat; norm_num [dotQ])
  · intro h
    have := forall₂_getElem? h 3 [0,0,1,1] 0 rfl rfl
    unfold RowSat at this
    norm_num [dotQ, PyQ.toRat] at this

/-- the SHIPPED code (fix 275bdf4) returns the solution, with every division exact. -/
theorem solveRight_repaired_d7 :
    solveRightX .repaired [[0,0,0,0],[0,0,1,0],[1,0,0,0],[0,0,1,1],[0,1,0,0]] [0,1,0,0,0]
      = .ok (some [⟨0,1⟩, ⟨0,1⟩, ⟨1,1⟩, ⟨-1,1⟩], true) := by decide +kernel


end LinAlg

/-! # lattice_suite.PseudoAverage / Bias, util.UniformSumCdf / CombinedPValue, small_roots guards

Model: Model/Lattice.lean (namespace `Paranoid.Lat`), lemmas: Proofs/Lattice.lean. -/

section Misc
open Paranoid.Lat Finset


/-! ## PseudoAverage -/

/-- What `diff` in iteration `j` is.  With `b` = the (sorted) list whose first `j` elements
are incremented by `n`:  `n · diff_j = (m·Σb² − (Σb)²) − (m·Σa² − (Σa)²)`, for every list,
every `j ≤ m` and every integer `n`.  Since the sample variance is
`(m·Σx² − (Σx)²) / (m(m−1))`, this says `diff = (Var b − Var a)·m(m−1)/n`; the comment in
the code (`(Variance(b) - Variance(a)) * (m - 1) / n`) is off by the constant factor `m`,
which does not change the minimiser. -/
theorem pseudoAverage_diff (s : List Int) (n : Int) (j : Nat) (hj : j ≤ s.length) :
    n * paDiffAt s n j =
      ((s.length : Int) * sumSq (paShift s n j) - (paShift s n j).sum ^ 2)
        - ((s.length : Int) * sumSq s - s.sum ^ 2) :=
  paDiff_identity s n j hj

/-- `diff_0 = 0` is the initial `best_diff`. -/
theorem pseudoAverage_diff_zero (s : List Int) (n : Int) : paDiffAt s n 0 = 0 :=
  paDiffAt_zero s n

/-- `best_j` is THE FIRST minimiser of `diff_j` over `j = 0..m` (strict `<` in the code). -/
theorem pseudoAverage_best (s : List Int) (n : Int) :
    paBestJ s n ≤ s.length ∧
    (∀ j, j ≤ s.length → paDiffAt s n (paBestJ s n) ≤ paDiffAt s n j) ∧
    (∀ j, j < paBestJ s n → paDiffAt s n (paBestJ s n) < paDiffAt s n j) := by
  obtain ⟨-, h2, h3, h4⟩ := paBestJ_firstMin s n
  exact ⟨h2, h3, h4⟩

/-- for `n > 0` the chosen `b` has minimal `m·Σb² − (Σb)²` (i.e. minimal variance) among the
`m + 1` prefix shifts. -/
theorem pseudoAverage_min_variance (s : List Int) (n : Int) (hn : 0 < n) (j : Nat)
    (hj : j ≤ s.length) :
    (s.length : Int) * sumSq (paShift s n (paBestJ s n)) - (paShift s n (paBestJ s n)).sum ^ 2
      ≤ (s.length : Int) * sumSq (paShift s n j) - (paShift s n j).sum ^ 2 := by
  obtain ⟨hb, hmin, -⟩ := pseudoAverage_best s n
  have h1 := paDiff_identity s n j hj
  have h2 := paDiff_identity s n _ hb
  have := Int.mul_le_mul_of_nonneg_left (hmin j hj) (Int.le_of_lt hn)
  linarith

/-- The docstring's definition ("from each pair (a[i], a[i] + n) an element b[i] is selected,
such that the variance of the elements b[i] is minimal"): for a sorted list and `n > 0` the
`b` chosen by the loop has minimal variance among ALL `2^m` selections `c`, not only among
the `m + 1` prefix shifts the loop looks at.  (`varNum b = m·Σb² − (Σb)² = m(m−1)·Var b`.) -/
theorem pseudoAverage_global_min (s : List Int) (n : Int) (hn : 0 < n)
    (hs : s.Pairwise (· ≤ ·)) (c : List Bool) (hc : c.length = s.length) :
    varNum (paShift s n (paBestJ s n)) ≤ varNum (maskShift n s c) := by
  have hj : c.count true ≤ s.length := by rw [← hc]; exact List.count_le_length
  have h1 := pseudoAverage_min_variance s n hn _ hj
  have h2 := varNum_mask_ge_prefix s n (Int.le_of_lt hn) c hc hs
  unfold varNum at h2 ⊢
  rw [paShift_length] at h2 ⊢
  exact Int.le_trans h1 h2

/-- The result of `PseudoAverage(a, n)`: it raises exactly for the empty list or `n = 0`;
otherwise, with `s = sorted(a)` (a sorted permutation of `a`) and `b` the best prefix shift,
it is `⌊(Σb + ⌊m/2⌋) / m⌋ mod n` (rounded mean of `b`, Python floor semantics). -/
theorem pseudoAverage_value (a : List Int) (n : Int) :
    (a = [] ∨ n = 0 → pseudoAverage a n = .error .zeroDivision) ∧
    (a ≠ [] → n ≠ 0 →
      (sortInts a).Perm a ∧ (sortInts a).Pairwise (· ≤ ·) ∧
      pseudoAverage a n = .ok (Int.fmod (Int.fdiv
        ((paShift (sortInts a) n (paBestJ (sortInts a) n)).sum + ((a.length / 2 : Nat) : Int))
        (a.length : Int)) n)) := by
  constructor
  · rintro (rfl | rfl)
    · simp [pseudoAverage]
    · unfold pseudoAverage; split <;> simp
  · intro ha hn
    refine ⟨sortInts_perm a, sortInts_sorted a, ?_⟩
    have hl : a.length ≠ 0 := by simpa using ha
    unfold pseudoAverage
    rw [if_neg hl, if_neg hn]
    unfold paFinal
    rw [paShift_sum _ _ _ (pseudoAverage_best _ n).1, sortInts_length]
    congr 4
    ring

/-- for a positive modulus the result is a residue in `[0, n)`. -/
theorem pseudoAverage_range (a : List Int) (n v : Int) (hn : 0 < n)
    (h : pseudoAverage a n = .ok v) : 0 ≤ v ∧ v < n := by
  unfold pseudoAverage at h
  split at h
  · simp at h
  · split at h
    · simp at h
    · simp only [Except.ok.injEq] at h
      subst h
      exact paFinal_range _ n hn

/-! ## Bias -/

/-- every summand `min(v, n - v)`, `v = (a*s+b) % n`, is the distance of `a*s+b` to the
nearest multiple of `n`, and lies in `[0, n/2]`. -/
theorem bias_term_distance (n s a b : Int) (hn : 0 < n) :
    0 ≤ biasTerm n s a b ∧ 2 * biasTerm n s a b ≤ n ∧
    (∃ k : Int, |a * s + b - k * n| = biasTerm n s a b) ∧
    (∀ k : Int, biasTerm n s a b ≤ |a * s + b - k * n|) :=
  biasTerm_spec n s a b hn

/-- `Bias` raises exactly for `n = 0`; otherwise `t` is the double sum of the summands and
the first argument of `UniformSumCdf` is `len(sample) * len(transforms)`. -/
theorem bias_value (sample : List Int) (n : Int) (tr : List (Int × Int)) :
    (n = 0 → bias sample n tr = .error .zeroDivision) ∧
    (n ≠ 0 → bias sample n tr =
      .ok ((sample.map (fun s => (tr.map (fun ab => biasTerm n s ab.1 ab.2)).sum)).sum,
           sample.length * tr.length)) := by
  constructor
  · intro h; simp [bias, h]
  · intro h; simp [bias, h, biasT, biasInner]

/-- `0 ≤ normalized = 2t/n ≤ len(sample)·len(transforms)` for `n > 0`: the argument handed
to `UniformSumCdf(len, ·)` is inside the support `[0, len]` of the Irwin–Hall distribution. -/
theorem bias_normalized_range (sample : List Int) (n : Int) (hn : 0 < n)
    (tr : List (Int × Int)) :
    0 ≤ biasNormalized sample n tr ∧
      biasNormalized sample n tr ≤ ((sample.length * tr.length : Nat) : ℚ) :=
  biasNormalized_range sample n hn tr

/-! ## UniformSumCdf -/

/-- the running `binom` after `k` iterations of `binom = binom * (n - k) // (k + 1)` is
`C(n, k)` — for ALL `n` and `k` (every `//` is exact). -/
theorem uniformSum_binom (n k : Nat) : usBinomAt n k = n.choose k := usBinomAt_choose n k

theorem uniformSum_binom_step (n k : Nat) :
    usBinomNext n k (n.choose k) = n.choose (k + 1) := usBinomNext_choose n k

/-- the alternating sum computed by the loop is the Irwin–Hall formula
`(1/n!) Σ_{k=0}^{⌊x⌋} (-1)^k C(n,k) (x-k)^n`, for all `n` and all rational `x`. -/
theorem uniformSum_sum (n : Nat) (x : ℚ) : usSum n x = irwinHall n x :=
  usSum_eq_irwinHall n x

/-- branch 1: `x ≤ 0 ↦ 0`. -/
theorem uniformSum_nonpos (n : Nat) (x : ℚ) (h : x ≤ 0) : uniformSumCdf n x = .exact 0 := by
  simp [uniformSumCdf, h]

/-- branch 4 (`0 < x ≤ n/2`, `n ≤ 36`): the Irwin–Hall formula. -/
theorem uniformSum_low (n : Nat) (x : ℚ) (h0 : 0 < x) (h1 : 2 * x ≤ n) (hn : n ≤ 36) :
    uniformSumCdf n x = .exact (irwinHall n x) := by
  unfold uniformSumCdf usInner
  rw [if_neg (not_le.mpr h0), if_neg (not_lt.mpr h1), if_neg (not_le.mpr h0),
    if_neg (by omega), usSum_eq_irwinHall]

/-- branch 2 then 4 (`n/2 < x < n`, `n ≤ 36`): `1 − F(n − x)` with the formula. -/
theorem uniformSum_high (n : Nat) (x : ℚ) (h1 : (n : ℚ) < 2 * x) (h2 : x < n) (hn : n ≤ 36) :
    uniformSumCdf n x = .exact (1 - irwinHall n ((n : ℚ) - x)) := by
  have h0 : 0 < x := by
    have : (0 : ℚ) ≤ (n : ℚ) := Nat.cast_nonneg n
    linarith
  unfold uniformSumCdf usInner
  rw [if_neg (not_le.mpr h0), if_pos h1, if_neg (by linarith), if_neg (by omega),
    usSum_eq_irwinHall]
  rfl

/-- branch 2 then 1 (`x ≥ n`, `x > 0`): `1 − 0`. -/
theorem uniformSum_ge (n : Nat) (x : ℚ) (h0 : 0 < x) (h : (n : ℚ) ≤ x) :
    uniformSumCdf n x = .exact 1 := by
  unfold uniformSumCdf usInner
  rw [if_neg (not_le.mpr h0), if_pos (by linarith), if_pos (by linarith)]
  simp [usReflect]

/-- `n > 36`: the normal approximation `NormalCdf(x', n/2, n/12)` (float tail) is requested
for `x' = x` resp. the reflected `x' = n − x`. -/
theorem uniformSum_normal_low (n : Nat) (x : ℚ) (h0 : 0 < x) (h1 : 2 * x ≤ n) (hn : 36 < n) :
    uniformSumCdf n x = .normal false x := by
  unfold uniformSumCdf usInner
  rw [if_neg (not_le.mpr h0), if_neg (not_lt.mpr h1), if_neg (not_le.mpr h0), if_pos hn]

theorem uniformSum_normal_high (n : Nat) (x : ℚ) (h1 : (n : ℚ) < 2 * x) (h2 : x < n)
    (hn : 36 < n) : uniformSumCdf n x = .normal true ((n : ℚ) - x) := by
  have h0 : 0 < x := by
    have : (0 : ℚ) ≤ (n : ℚ) := Nat.cast_nonneg n
    linarith
  unfold uniformSumCdf usInner
  rw [if_neg (not_le.mpr h0), if_pos h1, if_neg (by linarith), if_pos hn]
  rfl

/-- the recursion `UniformSumCdf(n, n - x)` never reflects a second time (exact `n − x`). -/
theorem uniformSum_reflect_once (n : Nat) (x : ℚ) (h : 2 * x > (n : ℚ)) :
    ¬ (2 * ((n : ℚ) - x) > (n : ℚ)) := usReflect_once n x h

/-! ## CombinedPValue -/

theorem combined_empty : combinedPValue [] = .error .valueError := rfl

theorem combined_single (p : ℚ) : combinedPValue [p] = .ok (.value p) := rfl

/-- `len ≥ 2`: returns `0` iff `min == 0`, i.e. some p-value is 0 and none is negative. -/
theorem combined_zero (p q : ℚ) (rest : List ℚ) :
    combinedPValue (p :: q :: rest) = .ok .zero ↔
      (0 : ℚ) ∈ p :: q :: rest ∧ ∀ r ∈ p :: q :: rest, 0 ≤ r := by
  rw [← ratMin_eq_zero_iff]
  show combinedMany p (q :: rest) = _ ↔ _
  unfold combinedMany
  split
  · simp [*]
  · rename_i h
    simp only [h, iff_false]
    split <;> simp

/-- `len ≥ 2`: the Fisher branch `Igamc(len, Σ −log p)` is taken iff every p-value is
positive. -/
theorem combined_fisher (p q : ℚ) (rest : List ℚ) (k : Nat) :
    combinedPValue (p :: q :: rest) = .ok (.fisher k) ↔
      k = (p :: q :: rest).length ∧ ∀ r ∈ p :: q :: rest, 0 < r := by
  have hz := ratMin_eq_zero_iff p (q :: rest)
  have hd := logDomainError_iff (p :: q :: rest)
  show combinedMany p (q :: rest) = _ ↔ _
  unfold combinedMany
  split
  · rename_i h0
    simp only [Except.ok.injEq, reduceCtorEq, false_iff, not_and, not_forall]
    intro _
    obtain ⟨hm, _⟩ := hz.mp h0
    exact ⟨0, hm, lt_irrefl _⟩
  · split
    · rename_i he
      simp only [reduceCtorEq, false_iff, not_and, not_forall]
      intro _
      obtain ⟨r, hr, hr0⟩ := hd.mp he
      exact ⟨r, hr, not_lt.mpr hr0⟩
    · rename_i h0 he
      simp only [Except.ok.injEq, CombOut.fisher.injEq, List.length_cons]
      constructor
      · intro hk
        refine ⟨by omega, ?_⟩
        intro r hr
        by_contra hneg
        exact he (hd.mpr ⟨r, hr, not_lt.mp hneg⟩)
      · rintro ⟨hk, -⟩; omega

/-- `len ≥ 2`: `ValueError` (math domain error of `math.log`) iff some p-value is negative
(a zero next to a negative entry does not trigger the `min == 0` shortcut). -/
theorem combined_error (p q : ℚ) (rest : List ℚ) :
    combinedPValue (p :: q :: rest) = .error .valueError ↔ ∃ r ∈ p :: q :: rest, r < 0 := by
  have hz := ratMin_eq_zero_iff p (q :: rest)
  have hd := logDomainError_iff (p :: q :: rest)
  show combinedMany p (q :: rest) = _ ↔ _
  unfold combinedMany
  split
  · rename_i h0
    simp only [reduceCtorEq, false_iff, not_exists, not_and, not_lt]
    exact (hz.mp h0).2
  · rename_i h0
    split
    · rename_i he
      simp only [true_iff]
      obtain ⟨r, hr, hr0⟩ := hd.mp he
      by_contra hneg
      simp only [not_exists, not_and, not_lt] at hneg
      have : r = 0 := le_antisymm hr0 (hneg r hr)
      exact h0 (hz.mpr ⟨this ▸ hr, hneg⟩)
    · rename_i he
      simp only [reduceCtorEq, false_iff, not_exists, not_and, not_lt]
      intro r hr
      by_contra hneg
      exact he (hd.mpr ⟨r, hr, le_of_lt (not_le.mp hneg)⟩)

/-- the only exception `CombinedPValue` raises is `ValueError`. -/
theorem combined_only_valueError (ps : List ℚ) (e : PyErr)
    (h : combinedPValue ps = .error e) : e = .valueError := by
  match ps with
  | [] => simpa [combinedPValue] using h.symm
  | [p] => simp [combinedPValue] at h
  | p :: q :: rest =>
    change combinedMany p (q :: rest) = _ at h
    unfold combinedMany at h
    split at h
    · simp at h
    · split at h
      · simpa using h.symm
      · simp at h

/-! ## small_roots guards -/

/-- what sympy's `f(r)` is for `Poly(..., modulus=n)`: the representative of the integer
value in the symmetric residue system `(-n/2, n/2]`. -/
theorem symMod_spec (a n : Int) (hn : 0 < n) :
    n ∣ a - symMod a n ∧ -n < 2 * symMod a n ∧ 2 * symMod a n ≤ n :=
  ⟨symMod_congr a n, symMod_range a n hn⟩

/-- HISTORICAL — about the PRE-FIX guard (`y != 0 and n % y == 0`), which /repo no longer ships (fix 02ff5e0); kept as the refutation that motivated the fix. Shipped guard: `uni_tail_repaired_true_root`, `guard_multi_repaired_true_root` below and Props/C19Shipped.lean. What the pre-fix guard of `univariate_modp` guaranteed, for every
candidate `rx`: the returned value is the candidate, and `y ≡ f(rx) (mod n)` is a non-zero
divisor of `n`; so `gcd(f(rx), n) = |y|`.  Nothing forced `|y| ≠ 1` (D9). -/
theorem guard_uni_sound (coeffs : List Int) (n rx r : Int) (h : guardUni coeffs n rx = some r) :
    r = rx ∧ ∃ y : Int, y ≠ 0 ∧ y ∣ n ∧ n ∣ polyEval coeffs r - y ∧
      Int.gcd (polyEval coeffs r) n = y.natAbs := by
  unfold guardUni at h
  split at h
  · rename_i hg
    simp only [Option.some.injEq] at h
    subst h
    obtain ⟨hy0, hyn⟩ := (guardAccept_iff _ _).mp hg
    exact ⟨rfl, _, hy0, hyn, symMod_congr _ _, gcd_of_congr_dvd _ _ _ (symMod_congr _ _) hyn⟩
  · simp at h

/-- HISTORICAL — about the PRE-FIX guard (`y != 0 and n % y == 0`), which /repo no longer ships (fix 02ff5e0); kept as the refutation that motivated the fix. Shipped guard: `uni_tail_repaired_true_root`, `guard_multi_repaired_true_root` below and Props/C19Shipped.lean. The whole pre-fix candidate loop of `univariate_modp`, for EVERY
candidate list (every LLL / factorisation answer): a returned value is one of the candidates and passed the guard;
`None` means every candidate was rejected. -/
theorem uni_tail_sound (coeffs : List Int) (n : Int) (cands : List Int) :
    (∀ r, uniTail coeffs n cands = some r → r ∈ cands ∧ guardUni coeffs n r = some r) ∧
    (uniTail coeffs n cands = none ↔ ∀ c ∈ cands, guardUni coeffs n c = none) := by
  unfold uniTail
  constructor
  · intro r h
    obtain ⟨c, hc, hg⟩ := List.exists_of_findSome?_eq_some h
    have := (guard_uni_sound coeffs n c r hg).1
    subst this
    exact ⟨hc, hg⟩
  · exact List.findSome?_eq_none_iff

/-- HISTORICAL — about the PRE-FIX guard (`y != 0 and n % y == 0`), which /repo no longer ships (fix 02ff5e0); kept as the refutation that motivated the fix. Shipped guard: `uni_tail_repaired_true_root`, `guard_multi_repaired_true_root` below and Props/C19Shipped.lean. With the extra hypothesis the pre-fix code did NOT test (`|y| ≠ 1`;
the shipped guard tests it), the accepted candidate is
a true root modulo a proper divisor of `n`: `d = gcd(f(r), n)` satisfies `1 < d < n`,
`d ∣ n`, `f(r) ≡ 0 (mod d)`.  (`d < n` comes for free from the symmetric residue system.) -/
theorem guard_uni_true_root (coeffs : List Int) (n rx r : Int) (hn : 0 < n)
    (h : guardUni coeffs n rx = some r)
    (hy : (symMod (polyEval coeffs rx) n).natAbs ≠ 1) :
    ∃ d : Nat, 1 < d ∧ (d : Int) < n ∧ (d : Int) ∣ n ∧ (d : Int) ∣ polyEval coeffs r := by
  unfold guardUni at h
  split at h
  · rename_i hg
    simp only [Option.some.injEq] at h
    subst h
    obtain ⟨hy0, hyn⟩ := (guardAccept_iff _ _).mp hg
    have hgcd := gcd_of_congr_dvd _ _ _ (symMod_congr (polyEval coeffs rx) n) hyn
    obtain ⟨hlo, hhi⟩ := symMod_range (polyEval coeffs rx) n hn
    refine ⟨(symMod (polyEval coeffs rx) n).natAbs, by omega, by omega, ?_, ?_⟩
    · exact Int.natAbs_dvd.mpr hyn
    · rw [← hgcd]; exact Int.gcd_dvd_left _ _
  · simp at h

/-- HISTORICAL — about the PRE-FIX guard (`y != 0 and n % y == 0`), which /repo no longer ships (fix 02ff5e0); kept as the refutation that motivated the fix. Shipped guard: `uni_tail_repaired_true_root`, `guard_multi_repaired_true_root` below and Props/C19Shipped.lean. D9: the pre-fix guard accepted EVERY candidate with `f(r) ≡ ±1 (mod n)`
(the shipped guard rejects them: `C19Shipped.guard_uni_rejects_unit`). -/
theorem guard_uni_accepts_unit (coeffs : List Int) (n rx : Int)
    (h : symMod (polyEval coeffs rx) n = 1 ∨ symMod (polyEval coeffs rx) n = -1) :
    guardUni coeffs n rx = some rx := by
  unfold guardUni
  rw [if_pos]
  rw [guardAccept_iff]
  rcases h with h | h <;> rw [h]
  · exact ⟨by decide, one_dvd n⟩
  · exact ⟨by decide, ⟨-n, by ring⟩⟩

/-- HISTORICAL — about the PRE-FIX guard (`y != 0 and n % y == 0`), which /repo no longer ships (fix 02ff5e0); kept as the refutation that motivated the fix. Shipped guard: `uni_tail_repaired_true_root`, `guard_multi_repaired_true_root` below and Props/C19Shipped.lean. The unrestricted soundness claim "an accepted candidate is a root
modulo some proper divisor of `n`" (not asserted; it is FALSE for the pre-fix guard, see
`guard_uni_fails`; TRUE for the shipped guard: `uni_tail_repaired_true_root`). -/
def GuardUniTrueRoot : Prop :=
  ∀ (coeffs : List Int) (n rx r : Int), 0 < n → guardUni coeffs n rx = some r →
    ∃ d : Nat, 1 < d ∧ (d : Int) < n ∧ (d : Int) ∣ n ∧ (d : Int) ∣ polyEval coeffs r

/-- HISTORICAL — about the PRE-FIX guard (`y != 0 and n % y == 0`), which /repo no longer ships (fix 02ff5e0); kept as the refutation that motivated the fix. Shipped guard: `uni_tail_repaired_true_root`, `guard_multi_repaired_true_root` below and Props/C19Shipped.lean. D9 on a concrete witness: `f = x + 1`, `n = 35`, candidate `0`: `f(0) = 1`, accepted,
although `0` is a root of `f` modulo no divisor `> 1` of 35. -/
theorem guard_uni_fails : ¬ GuardUniTrueRoot := by
  intro h
  obtain ⟨d, hd1, -, -, hd⟩ := h [1, 1] 35 0 0 (by decide) (by decide +kernel)
  have : polyEval [1, 1] 0 = 1 := by decide +kernel
  rw [this] at hd
  have := Int.le_of_dvd (by decide) hd
  omega

/-- shared core: a residue `y ≡ v (mod n)` in the symmetric system with `|y| > 1`, `y ∣ n`
gives a proper divisor `d = |y|` of `n` with `d ∣ v`. -/
theorem proper_divisor_of_guard (v n : Int) (hn : 0 < n) (h1 : 1 < (symMod v n).natAbs)
    (hd : symMod v n ∣ n) :
    ∃ d : Nat, 1 < d ∧ (d : Int) < n ∧ (d : Int) ∣ n ∧ (d : Int) ∣ v := by
  have hgcd := gcd_of_congr_dvd _ _ _ (symMod_congr v n) hd
  obtain ⟨hlo, hhi⟩ := symMod_range v n hn
  refine ⟨(symMod v n).natAbs, h1, by omega, Int.natAbs_dvd.mpr hd, ?_⟩
  rw [← hgcd]; exact Int.gcd_dvd_left _ _

/-- SHIPPED guard (`abs(y) > 1 and n % y == 0`, /repo HEAD since fix 02ff5e0 =
fixes/small-roots-unit-guard.diff): every
accepted candidate of `univariate_modp` is a true root modulo a proper divisor of `n` —
for every polynomial, modulus `n > 0` and candidate list, no side condition. -/
theorem uni_tail_repaired_true_root (coeffs : List Int) (n : Int) (hn : 0 < n)
    (cands : List Int) (r : Int) (h : uniTailR coeffs n cands = some r) :
    r ∈ cands ∧
      ∃ d : Nat, 1 < d ∧ (d : Int) < n ∧ (d : Int) ∣ n ∧ (d : Int) ∣ polyEval coeffs r := by
  unfold uniTailR at h
  obtain ⟨c, hc, hg⟩ := List.exists_of_findSome?_eq_some h
  unfold guardUniR at hg
  split at hg
  · rename_i ha
    simp only [Option.some.injEq] at hg
    subst hg
    obtain ⟨h1, hd⟩ := (guardAcceptR_iff _ _).mp ha
    exact ⟨hc, proper_divisor_of_guard _ n hn h1 hd⟩
  · simp at hg

/-- SHIPPED guard of `multivariate_modp` (fix 02ff5e0). -/
theorem guard_multi_repaired_true_root (f : List Mono) (n : Int) (hn : 0 < n)
    (roots r : List Int) (h : guardMultiR f n roots = some r) :
    r = roots ∧
      ∃ d : Nat, 1 < d ∧ (d : Int) < n ∧ (d : Int) ∣ n ∧ (d : Int) ∣ mpolyEval f r := by
  unfold guardMultiR at h
  split at h
  · rename_i ha
    simp only [Option.some.injEq] at h
    subst h
    obtain ⟨h1, hd⟩ := (guardAcceptR_iff _ _).mp ha
    exact ⟨rfl, proper_divisor_of_guard _ n hn h1 hd⟩
  · simp at h

/-- HISTORICAL — about the PRE-FIX guard (`y != 0 and n % y == 0`), which /repo no longer ships (fix 02ff5e0); kept as the refutation that motivated the fix. Shipped guard: `uni_tail_repaired_true_root`, `guard_multi_repaired_true_root` below and Props/C19Shipped.lean. `multivariate_modp` had the same pre-fix guard on `y = int(f(*roots))`. -/
theorem guard_multi_sound (f : List Mono) (n : Int) (roots r : List Int)
    (h : guardMulti f n roots = some r) :
    r = roots ∧ ∃ y : Int, y ≠ 0 ∧ y ∣ n ∧ n ∣ mpolyEval f r - y ∧
      Int.gcd (mpolyEval f r) n = y.natAbs := by
  unfold guardMulti at h
  split at h
  · rename_i hg
    simp only [Option.some.injEq] at h
    subst h
    obtain ⟨hy0, hyn⟩ := (guardAccept_iff _ _).mp hg
    exact ⟨rfl, _, hy0, hyn, symMod_congr _ _, gcd_of_congr_dvd _ _ _ (symMod_congr _ _) hyn⟩
  · simp at h

/-- HISTORICAL — about the PRE-FIX guard (`y != 0 and n % y == 0`), which /repo no longer ships (fix 02ff5e0); kept as the refutation that motivated the fix. Shipped guard: `uni_tail_repaired_true_root`, `guard_multi_repaired_true_root` below and Props/C19Shipped.lean. -/
theorem guard_multi_true_root (f : List Mono) (n : Int) (roots r : List Int) (hn : 0 < n)
    (h : guardMulti f n roots = some r)
    (hy : (symMod (mpolyEval f roots) n).natAbs ≠ 1) :
    ∃ d : Nat, 1 < d ∧ (d : Int) < n ∧ (d : Int) ∣ n ∧ (d : Int) ∣ mpolyEval f r := by
  unfold guardMulti at h
  split at h
  · rename_i hg
    simp only [Option.some.injEq] at h
    subst h
    obtain ⟨hy0, hyn⟩ := (guardAccept_iff _ _).mp hg
    have hgcd := gcd_of_congr_dvd _ _ _ (symMod_congr (mpolyEval f roots) n) hyn
    obtain ⟨hlo, hhi⟩ := symMod_range (mpolyEval f roots) n hn
    refine ⟨(symMod (mpolyEval f roots) n).natAbs, by omega, by omega, ?_, ?_⟩
    · exact Int.natAbs_dvd.mpr hyn
    · rw [← hgcd]; exact Int.gcd_dvd_left _ _
  · simp at h

/-- `multivariate_modn`: an accepted candidate is a true root modulo `n` (any `n`). -/
theorem guard_modn_sound (f : List Mono) (n : Int) (roots r : List Int)
    (h : guardModn f n roots = some r) : r = roots ∧ n ∣ mpolyEval f r := by
  unfold guardModn at h
  split at h
  · rename_i hg
    simp only [Option.some.injEq] at h
    subst h
    refine ⟨rfl, ?_⟩
    have h1 : n ∣ symMod (mpolyEval f roots) n := by
      have := Int.mul_fdiv_add_fmod (symMod (mpolyEval f roots) n) n
      exact ⟨Int.fdiv (symMod (mpolyEval f roots) n) n, by omega⟩
    have h2 := symMod_congr (mpolyEval f roots) n
    have := Int.dvd_add h2 h1
    simpa using this
  · simp at h

/-- candidate loop of `multivariate_modn`: a returned tuple is one of sympy's candidate
solutions and a true root of `f` modulo `n`. -/
theorem modn_tail_sound (f : List Mono) (n : Int) (cands : List (List Int)) (r : List Int)
    (h : modnTail f n cands = some r) : r ∈ cands ∧ n ∣ mpolyEval f r := by
  unfold modnTail at h
  obtain ⟨c, hc, hg⟩ := List.exists_of_findSome?_eq_some h
  obtain ⟨rfl, hd⟩ := guard_modn_sound f n c r hg
  exact ⟨hc, hd⟩

/-! ## Non-vacuity -/

-- the docstring example of PseudoAverage
example : pseudoAverage [0, 6, 7, 8, 9] 10 = .ok 8 := by decide +kernel
example : pseudoAverage [9, 0, 8, 6, 7] 10 = .ok 8 := by decide +kernel
example : paBestJ [0, 6, 7, 8, 9] 10 = 1 ∧ paDiffAt [0, 6, 7, 8, 9] 10 1 = -20 := by
  decide +kernel
example : maskShift 10 [0, 6, 7, 8, 9] [true, false, false, false, false] = [10, 6, 7, 8, 9] ∧
    varNum [10, 6, 7, 8, 9] = 50 ∧ varNum [0, 6, 7, 8, 9] = 250 := by decide +kernel
-- tie: [0,5] mod 10: diff_1 = 0 is not < 0, the first minimiser j = 0 is kept
example : paBestJ [0, 5] 10 = 0 ∧ paDiffAt [0, 5] 10 1 = 0 := by decide +kernel
example : bias [1, 2, 3] 7 [(3, 1), (2, 2)] = .ok (11, 6) := by decide +kernel
example : biasTerm 7 2 3 1 = 0 ∧ biasTerm 7 3 3 1 = 3 := by decide +kernel
example : usBinomAt 36 18 = 9075135300 := by decide +kernel
example : uniformSumCdf 3 (3 / 2) = .exact (1 / 2) := by decide +kernel
example : uniformSumCdf 2 (15 / 8) = .exact (127 / 128) := by decide +kernel
example : uniformSumCdf 40 39 = .normal true 1 := by decide +kernel
example : combinedPValue [1 / 2, 0] = .ok .zero := by decide +kernel
example : combinedPValue [1 / 2, 1 / 3, 1] = .ok (.fisher 3) := by decide +kernel
example : combinedPValue [0, -1 / 2] = .error .valueError := by decide +kernel
-- f = 3x² + 5x − 5 mod 35: f(12) ≡ 7·… accepted with |y| = 7 (true root mod 7)
example : guardUni [-5, 5, 3] 35 13 = some 13 ∧ symMod (polyEval [-5, 5, 3] 13) 35 = 7 := by
  decide +kernel
example : guardUni [-5, 5, 3] 35 1 = none := by decide +kernel
example : guardUni [1, 1] 35 0 = some 0 := by decide +kernel
example : uniTail [-5, 5, 3] 35 [1, 2, 13, 4] = some 13 := by decide +kernel
example : uniTailR [-5, 5, 3] 35 [1, 2, 13, 4] = some 13 := by decide +kernel
example : uniTailR [-1, -2] 57 [-1] = none := by decide +kernel
-- D9 with the real function: univariate_modp(Poly(-2x-1, modulus=57), 4, k=1) returns -1
example : uniTail [-1, -2] 57 [-1] = some (-1) ∧ symMod (polyEval [-1, -2] (-1)) 57 = 1 := by
  decide +kernel
example : guardModn [⟨1, [1, 1]⟩, ⟨-6, []⟩] 35 [2, 3] = some [2, 3] := by decide +kernel
example : guardModn [⟨1, [1, 1]⟩, ⟨-6, []⟩] 35 [2, 4] = none := by decide +kernel


end Misc

end Paranoid.C19
