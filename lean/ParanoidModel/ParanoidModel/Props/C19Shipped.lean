/-
Props/C19Shipped.lean — C19, statements about the functions /repo SHIPS at HEAD.

/repo HEAD contains the repairs of D7 (275bdf4, `echelon_form`), D16 (cdbbb74, `DivmodRounded`)
and D9 (02ff5e0, small-root guards).  The models of the shipped functions are the `…R` /
`.repaired` definitions (`divmodRoundedR`, `guardUniR`, `uniTailR`, `guardMultiR`,
`solveRightX .repaired`); the correspondence run of C19 evaluates exactly these
(`evidence/C19.json`: `divmodrounded_variant = repaired`, `small_roots_guard_variant = repaired`,
`d7_patch_status`).  The theorems of Props/C19.lean about `divmodRounded`, `guardUni`, `uniTail`,
`guardMulti`, `solveRight .pinned` describe the PRE-FIX functions and are kept as the refutations
that motivated the fixes.

This file gives, for the shipped functions, everything that Props/C19.lean proved only for the
pinned ones and that is still true, plus the `n = 0` / `n < 0` behaviour of PseudoAverage and
Bias that the `0 < n` theorems of Props/C19.lean leave out.
-/
import ParanoidModel.Proofs.NTheoryShipped
import ParanoidModel.Proofs.LatticeSigns
namespace Paranoid.C19Shipped
open Paranoid Paranoid.NT Paranoid.Lat

/-! ## ntheory_util.DivmodRounded as shipped (`d = b // 2 if b > 0 else (b + 1) // 2`)

Real code at the boundary (run against /repo HEAD through harness/shims.py):
`DivmodRounded(7, 0)`, `DivmodRounded(0, 0)` and the same with `gmpy2.mpz` arguments raise
`ZeroDivisionError` (from `divmod(a + d, b)`; `d = (0 + 1) // 2 = 0` is computed first and
cannot raise); `DivmodRounded(1, 3) = (0, 1)`, `(3, 2) → (2, -1)`, `(-3, 2) → (-1, -1)`,
`(3, -2) → (-1, 1)`, `(5, 1) → (5, 0)`, `(5, -1) → (-5, 0)`.  Nothing else can raise for `int`
/ `mpz` arguments: the function is total on `b ≠ 0`. -/

/-- zero divisor: `ZeroDivisionError`, for every dividend. -/
theorem divmodRounded_zero (a : Int) : divmodRoundedR a 0 = .error .zeroDivision :=
  divmodRoundedR_zero a

/-- totality: every non-zero divisor (positive or negative, odd or even) gives a pair. -/
theorem divmodRounded_total (a b : Int) (hb : b ≠ 0) :
    ∃ q r, divmodRoundedR a b = .ok (q, r) :=
  ⟨_, _, divmodRoundedR_ok a b hb⟩

/-- the function raises exactly for `b = 0`, and the only exception is `ZeroDivisionError`. -/
theorem divmodRounded_error_iff (a b : Int) (e : PyErr) :
    divmodRoundedR a b = .error e ↔ b = 0 ∧ e = .zeroDivision := by
  constructor
  · intro h
    by_cases hb : b = 0
    · subst hb
      rw [divmodRoundedR_zero] at h
      exact ⟨rfl, by cases h; rfl⟩
    · rw [divmodRoundedR_ok a b hb] at h; cases h
  · rintro ⟨rfl, rfl⟩; exact divmodRoundedR_zero a

/-- `r = a − q·b`. -/
theorem divmodRounded_identity (a b q r : Int) (h : divmodRoundedR a b = .ok (q, r)) :
    b ≠ 0 ∧ r = a - q * b := by
  obtain ⟨hb, he, _⟩ := divmodRoundedR_spec a b q r h
  exact ⟨hb, by omega⟩

/-- exact remainder range for `b > 0`, odd or even: `−b ≤ 2r < b` (a tie `2r = −b`, possible for
even `b` only, is resolved to the LARGER quotient). -/
theorem divmodRounded_range_pos (a b q r : Int) (hb : 0 < b)
    (h : divmodRoundedR a b = .ok (q, r)) : -b ≤ 2 * r ∧ 2 * r < b :=
  divmodRoundedR_range_pos a b q r hb h

/-- exact remainder range for `b < 0` (Python floor `divmod`): `b < 2r ≤ −b` (the tie `2r = −b`
again belongs to the larger quotient). -/
theorem divmodRounded_range_neg (a b q r : Int) (hb : b < 0)
    (h : divmodRoundedR a b = .ok (q, r)) : b < 2 * r ∧ 2 * r ≤ -b :=
  divmodRoundedR_range_neg a b q r hb h

/-- the docstring's `abs(2*r) <= abs(b)`. -/
theorem divmodRounded_abs (a b q r : Int) (h : divmodRoundedR a b = .ok (q, r)) :
    2 * |r| ≤ |b| :=
  (divmodRoundedR_spec a b q r h).2.2

/-- the docstring's "q is an integer closest to a/b": no multiple of `b` is closer to `a`. -/
theorem divmodRounded_nearest (a b q r : Int) (h : divmodRoundedR a b = .ok (q, r)) :
    IsNearest a b q :=
  divmodRoundedR_nearest a b q r h

/-- the docstring's "ties are rounded towards +infinity", exactly: every integer `z` that is at
least as close to `a/b` as `q` satisfies `z ≤ q` (so `q` is the largest nearest integer). -/
theorem divmodRounded_ties_up (a b q r : Int) (h : divmodRoundedR a b = .ok (q, r)) (z : Int)
    (hz : |a - z * b| ≤ |a - q * b|) : z ≤ q :=
  divmodRoundedR_tie_up a b q r h z hz

/-- closed form, every non-zero divisor of either sign: `q = ⌊a/b + 1/2⌋ = (2a + b) // (2b)`
(round half up — NOT Python's `round`, which rounds half to even). -/
theorem divmodRounded_half_up (a b q r : Int) (h : divmodRoundedR a b = .ok (q, r)) :
    q = Int.fdiv (2 * a + b) (2 * b) :=
  divmodRoundedR_quot a b q r h

/-- FULL SPECIFICATION (characterisation): for `b ≠ 0`, `(q, r)` is the result iff
`q·b + r = a` and `r` lies in the half-open range of the sign of `b`. -/
theorem divmodRounded_spec (a b q r : Int) (hb : b ≠ 0) :
    divmodRoundedR a b = .ok (q, r) ↔
      q * b + r = a ∧ (0 < b → -b ≤ 2 * r ∧ 2 * r < b) ∧ (b < 0 → b < 2 * r ∧ 2 * r ≤ -b) := by
  constructor
  · intro h
    exact ⟨(divmodRoundedR_spec a b q r h).2.1, fun hp => divmodRoundedR_range_pos a b q r hp h,
      fun hn => divmodRoundedR_range_neg a b q r hn h⟩
  · rintro ⟨he, hp, hn⟩
    obtain ⟨q', r', h'⟩ := divmodRounded_total a b hb
    have he' := (divmodRoundedR_spec a b q' r' h').2.1
    obtain ⟨rfl, rfl⟩ := quot_unique_of_range a b q r q' r' hb he he'
      (fun hpos => ⟨hp hpos, divmodRoundedR_range_pos a b q' r' hpos h'⟩)
      (fun hneg => ⟨hn hneg, divmodRoundedR_range_neg a b q' r' hneg h'⟩)
    exact h'

/-- exact division: `b ∣ a` gives remainder 0. -/
theorem divmodRounded_exact (k b : Int) (hb : b ≠ 0) : divmodRoundedR (k * b) b = .ok (k, 0) := by
  rw [divmodRounded_spec _ _ _ _ hb]
  refine ⟨by ring, fun h => by omega, fun h => by omega⟩

/-- the callers' case, now including `x = 2^0 = 1`: `CheckContinuedFraction` passes
`x = 2^(bitlen(n)//2)`; for every power of two the result exists, satisfies the identity, the
symmetric range `−x ≤ 2r < x`, is a nearest integer, and is `⌊(2a + x) / 2x⌋`. -/
theorem divmodRounded_pow2 (a : Int) (j : Nat) :
    ∃ q r, divmodRoundedR a (2 ^ j) = .ok (q, r) ∧ q * 2 ^ j + r = a ∧
      -(2 : Int) ^ j ≤ 2 * r ∧ 2 * r < 2 ^ j ∧ IsNearest a (2 ^ j) q ∧
      q = Int.fdiv (2 * a + 2 ^ j) (2 * 2 ^ j) := by
  have hpos : (0 : Int) < 2 ^ j := by positivity
  obtain ⟨q, r, h⟩ := divmodRounded_total a (2 ^ j) (ne_of_gt hpos)
  have hr := divmodRoundedR_range_pos a _ q r hpos h
  exact ⟨q, r, h, (divmodRoundedR_spec a _ q r h).2.1, hr.1, hr.2,
    divmodRoundedR_nearest a _ q r h, divmodRoundedR_quot a _ q r h⟩

/-- divisor 1 (the callers' `x` for `n < 2`): `(a, 0)`; the pinned function returned
`(a + 1, -1)` (`C19.divmodRounded_by_one`). -/
theorem divmodRounded_by_one (a : Int) : divmodRoundedR a 1 = .ok (a, 0) := by
  have := divmodRounded_exact a 1 (by decide)
  simpa using this

/-- the two consecutive calls of `rsa_util.CheckContinuedFraction`
(`r, c = DivmodRounded(n*v, x); a, b = DivmodRounded(r, x)`) with `x` a power of two: both
succeed and write `N = a·x² + b·x + c` with balanced digits `−x ≤ 2b < x`, `−x ≤ 2c < x`. -/
theorem divmodRounded_caller_digits (N : Int) (j : Nat) :
    ∃ r c a b, divmodRoundedR N (2 ^ j) = .ok (r, c) ∧ divmodRoundedR r (2 ^ j) = .ok (a, b) ∧
      N = a * (2 ^ j) ^ 2 + b * 2 ^ j + c ∧
      -(2 : Int) ^ j ≤ 2 * b ∧ 2 * b < 2 ^ j ∧ -(2 : Int) ^ j ≤ 2 * c ∧ 2 * c < 2 ^ j := by
  obtain ⟨r, c, h1, e1, c1, c2, -, -⟩ := divmodRounded_pow2 N j
  obtain ⟨a, b, h2, e2, b1, b2, -, -⟩ := divmodRounded_pow2 r j
  refine ⟨r, c, a, b, h1, h2, ?_, b1, b2, c1, c2⟩
  rw [← e1, ← e2]; ring

/-- the shipped function differs from the pre-fix one only for odd `b > 0`. -/
theorem divmodRounded_eq_prefix (a b : Int) (hb : b % 2 = 0 ∨ b < 0) :
    divmodRoundedR a b = divmodRounded a b :=
  divmodRoundedR_eq_pinned a b hb

/-- … and for odd `b > 0` it really differs (every dividend): the pre-fix quotient/remainder
pair had `2r ∈ [−(b+1), b−1)`; e.g. `(1, 3)`: `(0, 1)` now, `(1, −2)` before. -/
theorem divmodRounded_ne_prefix_witness :
    divmodRoundedR 1 3 = .ok (0, 1) ∧ divmodRounded 1 3 = .ok (1, -2) := by decide +kernel

/-! ## small_roots guards as shipped (`abs(y) > 1 and n % y == 0`)

`C19.uni_tail_repaired_true_root` / `C19.guard_multi_repaired_true_root` give the "true root"
conclusion; the following are the shipped counterparts of the pinned `guard_uni_sound`,
`uni_tail_sound`, `guard_multi_sound`, `guard_uni_accepts_unit`. -/

/-- what the shipped guard of `univariate_modp` guarantees: the returned value is the candidate
and `y ≡ f(rx) (mod n)` is a divisor of `n` with `|y| > 1`; `gcd(f(rx), n) = |y|`. -/
theorem guard_uni_sound (coeffs : List Int) (n rx r : Int) (h : guardUniR coeffs n rx = some r) :
    r = rx ∧ ∃ y : Int, 1 < y.natAbs ∧ y ∣ n ∧ n ∣ polyEval coeffs r - y ∧
      Int.gcd (polyEval coeffs r) n = y.natAbs := by
  unfold guardUniR at h
  split at h
  · rename_i hg
    simp only [Option.some.injEq] at h
    subst h
    obtain ⟨hy1, hyn⟩ := (guardAcceptR_iff _ _).mp hg
    exact ⟨rfl, _, hy1, hyn, symMod_congr _ _, gcd_of_congr_dvd _ _ _ (symMod_congr _ _) hyn⟩
  · simp at h

/-- the shipped candidate loop, for EVERY candidate list (every LLL / factorisation answer): a
returned value is one of the candidates and passed the guard; `None` ↔ every candidate was
rejected. -/
theorem uni_tail_sound (coeffs : List Int) (n : Int) (cands : List Int) :
    (∀ r, uniTailR coeffs n cands = some r → r ∈ cands ∧ guardUniR coeffs n r = some r) ∧
    (uniTailR coeffs n cands = none ↔ ∀ c ∈ cands, guardUniR coeffs n c = none) := by
  unfold uniTailR
  constructor
  · intro r h
    obtain ⟨c, hc, hg⟩ := List.exists_of_findSome?_eq_some h
    have := (guard_uni_sound coeffs n c r hg).1
    subst this
    exact ⟨hc, hg⟩
  · exact List.findSome?_eq_none_iff

/-- the D9 hole is closed: a candidate with `f(r) ≡ 0, 1, −1 (mod n)` is rejected. -/
theorem guard_uni_rejects_unit (coeffs : List Int) (n rx : Int)
    (h : (symMod (polyEval coeffs rx) n).natAbs ≤ 1) : guardUniR coeffs n rx = none := by
  unfold guardUniR
  rw [if_neg]
  intro hg
  have := ((guardAcceptR_iff _ _).mp hg).1
  omega

/-- the shipped guard accepts exactly the pre-fix acceptances with `|y| ≠ 1`. -/
theorem guard_uni_iff_prefix (coeffs : List Int) (n rx : Int) :
    guardUniR coeffs n rx = some rx ↔
      guardUni coeffs n rx = some rx ∧ (symMod (polyEval coeffs rx) n).natAbs ≠ 1 := by
  unfold guardUniR guardUni
  constructor
  · intro h
    split at h
    · rename_i hg
      obtain ⟨h1, hd⟩ := (guardAcceptR_iff _ _).mp hg
      refine ⟨?_, by omega⟩
      rw [if_pos ((guardAccept_iff _ _).mpr ⟨by intro h0; rw [h0] at h1; simp at h1, hd⟩)]
    · simp at h
  · rintro ⟨h, hne⟩
    split at h
    · rename_i hg
      obtain ⟨h0, hd⟩ := (guardAccept_iff _ _).mp hg
      rw [if_pos ((guardAcceptR_iff _ _).mpr ⟨by omega, hd⟩)]
    · simp at h

/-- shipped guard of `multivariate_modp`. -/
theorem guard_multi_sound (f : List Mono) (n : Int) (roots r : List Int)
    (h : guardMultiR f n roots = some r) :
    r = roots ∧ ∃ y : Int, 1 < y.natAbs ∧ y ∣ n ∧ n ∣ mpolyEval f r - y ∧
      Int.gcd (mpolyEval f r) n = y.natAbs := by
  unfold guardMultiR at h
  split at h
  · rename_i hg
    simp only [Option.some.injEq] at h
    subst h
    obtain ⟨hy1, hyn⟩ := (guardAcceptR_iff _ _).mp hg
    exact ⟨rfl, _, hy1, hyn, symMod_congr _ _, gcd_of_congr_dvd _ _ _ (symMod_congr _ _) hyn⟩
  · simp at h

theorem guard_multi_rejects_unit (f : List Mono) (n : Int) (roots : List Int)
    (h : (symMod (mpolyEval f roots) n).natAbs ≤ 1) : guardMultiR f n roots = none := by
  unfold guardMultiR
  rw [if_neg]
  intro hg
  have := ((guardAcceptR_iff _ _).mp hg).1
  omega

/-! ## PseudoAverage / Bias outside `0 < n`

Real code (run against /repo HEAD): `PseudoAverage([1,2,3], 0)` → `ZeroDivisionError` (at
`% n`), `PseudoAverage([], 0)` and `PseudoAverage([], 5)` → `ZeroDivisionError` (at `// m`),
`PseudoAverage([1,2,3], -7) = 0`, `PseudoAverage([0,6,7,8,9], -10) = -8`;
`Bias([1,2,3], 0, [(1,0)])` → `ZeroDivisionError` (at `% n`), `Bias([], 0, [(1,0)])` and
`Bias([1,2], 0, [])` → `ZeroDivisionError` (float `2*t/n`), `Bias([], 5, …) = 0.0`,
`Bias([1,2,3], -7, [(1,0),(2,1)]) = 1.0`. -/

/-- `n = 0`: `ZeroDivisionError` for every list (empty or not). -/
theorem pseudoAverage_n_zero (a : List Int) : pseudoAverage a 0 = .error .zeroDivision := by
  unfold pseudoAverage; split <;> simp

/-- empty list: `ZeroDivisionError` for every modulus. -/
theorem pseudoAverage_empty (n : Int) : pseudoAverage [] n = .error .zeroDivision := by
  simp [pseudoAverage]

/-- totality: a value is returned exactly for a non-empty list and `n ≠ 0`, and the only
exception is `ZeroDivisionError`. -/
theorem pseudoAverage_total_iff (a : List Int) (n : Int) :
    ((∃ v, pseudoAverage a n = .ok v) ↔ a ≠ [] ∧ n ≠ 0) ∧
    (∀ e, pseudoAverage a n = .error e → e = .zeroDivision) := by
  unfold pseudoAverage
  by_cases ha : a.length = 0
  · have : a = [] := List.eq_nil_of_length_eq_zero ha
    simp [this]
  · have : a ≠ [] := by intro h; rw [h] at ha; simp at ha
    by_cases hn : n = 0
    · simp [ha, hn]
    · simp [ha, hn, this]

/-- `n < 0` (Python `%` takes the sign of the divisor): the result lies in `(n, 0]`. -/
theorem pseudoAverage_range_neg (a : List Int) (n v : Int) (hn : n < 0)
    (h : pseudoAverage a n = .ok v) : n < v ∧ v ≤ 0 := by
  unfold pseudoAverage at h
  split at h
  · simp at h
  · split at h
    · simp at h
    · simp only [Except.ok.injEq] at h
      subst h
      exact paFinal_range_neg _ n hn

/-- `n < 0`: the loop's `diff < best_diff` then selects a prefix shift of MAXIMAL variance
(`n·diff_j` is the variance difference, and `n` is negative): the docstring's "variance
minimal" holds for `n > 0` only (`C19.pseudoAverage_min_variance`). -/
theorem pseudoAverage_neg_max_variance (s : List Int) (n : Int) (hn : n < 0) (j : Nat)
    (hj : j ≤ s.length) :
    (s.length : Int) * sumSq (paShift s n j) - (paShift s n j).sum ^ 2 ≤
      (s.length : Int) * sumSq (paShift s n (paBestJ s n)) - (paShift s n (paBestJ s n)).sum ^ 2 :=
  paBest_max_variance_neg s n hn j hj

/-- `n = 0`: `Bias` raises `ZeroDivisionError` for every sample and every transform list
(including empty ones). -/
theorem bias_n_zero (sample : List Int) (tr : List (Int × Int)) :
    bias sample 0 tr = .error .zeroDivision := by
  simp [bias]

/-- totality of the integer part of `Bias`: a value exactly for `n ≠ 0`. -/
theorem bias_total_iff (sample : List Int) (n : Int) (tr : List (Int × Int)) :
    ((∃ v, bias sample n tr = .ok v) ↔ n ≠ 0) ∧
    (∀ e, bias sample n tr = .error e → e = .zeroDivision) := by
  unfold bias
  by_cases hn : n = 0
  · simp [hn]
  · simp [hn]

/-- `n < 0`: each summand `min(v, n − v)` is in `[n, n/2]` (non-positive; minus the LARGER
distance to the two neighbouring multiples of `n`). -/
theorem bias_term_neg (n s a b : Int) (hn : n < 0) :
    n ≤ biasTerm n s a b ∧ 2 * biasTerm n s a b ≤ n :=
  biasTerm_neg n s a b hn

/-- `n < 0`: `normalized = 2t/n ∈ [len, 2·len]`: at or above the upper end of the support, so
the p-value is `UniformSumCdf(len, x ≥ len) = 1.0` whenever `len > 0` (`C19.uniformSum_ge`). -/
theorem bias_normalized_range_neg (sample : List Int) (n : Int) (hn : n < 0)
    (tr : List (Int × Int)) :
    ((sample.length * tr.length : Nat) : ℚ) ≤ biasNormalized sample n tr ∧
      biasNormalized sample n tr ≤ 2 * ((sample.length * tr.length : Nat) : ℚ) :=
  biasNormalized_range_neg sample n hn tr

/-! ## Non-vacuity -/

example : divmodRoundedR 1 3 = .ok (0, 1) ∧ divmodRoundedR 4 3 = .ok (1, 1) ∧
    divmodRoundedR 7 5 = .ok (1, 2) ∧ divmodRoundedR 2 (-3) = .ok (-1, -1) := by decide +kernel
-- ties: up for both signs of the divisor
example : divmodRoundedR 3 2 = .ok (2, -1) ∧ divmodRoundedR (-3) 2 = .ok (-1, -1) ∧
    divmodRoundedR 3 (-2) = .ok (-1, 1) ∧ divmodRoundedR (-3) (-2) = .ok (2, 1) := by
  decide +kernel
-- not Python's round-half-even: round(0.5) = 0, round(2.5) = 2
example : divmodRoundedR 1 2 = .ok (1, -1) ∧ divmodRoundedR 5 2 = .ok (3, -1) := by
  decide +kernel
example : divmodRoundedR 1234567 (2 ^ 10) = .ok (1206, -377) := by decide +kernel
example : divmodRoundedR 5 1 = .ok (5, 0) ∧ divmodRoundedR 5 (-1) = .ok (-5, 0) := by
  decide +kernel
example : guardUniR [-5, 5, 3] 35 13 = some 13 ∧ guardUniR [1, 1] 35 0 = none ∧
    guardUni [1, 1] 35 0 = some 0 := by decide +kernel
example : pseudoAverage [1, 2, 3] (-7) = .ok 0 ∧ pseudoAverage [0, 6, 7, 8, 9] (-10) = .ok (-8) := by
  decide +kernel
example : bias [1, 2, 3] (-7) [(1, 0), (2, 1)] = .ok (-31, 6) := by decide +kernel
example : biasTerm (-7) 2 3 1 = -7 ∧ biasTerm (-7) 3 3 1 = -4 := by decide +kernel

end Paranoid.C19Shipped
