/-
Props/C20.lean — "Bundled generators return exactly the requested bits, reproducibly".
Property theorems only; helper lemmas live in Proofs/Rng.lean.

Every theorem is universally quantified over the requested size `n : Nat` (no bound; the
property asks `n ≥ 1`, the theorems also cover `n = 0`), over every seed `seed : Int` (any
sign, any size) and over every parameter of the parametrised generators.  The `…_unseeded`
variants quantify over the expanded state instead: that is the `seed is None` path, where the
state comes from `os.urandom`.  For the wrappers (`Urandom Shake128 Mt19937 NumpyRng
SubsetSum`) the theorems quantify over EVERY answer of the oracle of the promised length
(`os.urandom(k)`, `shake.digest(k)`, `Generator.bytes(k)` return `k` bytes;
`random.getrandbits(n) < 2^n`).

Purity ("with a non-zero seed the result is a pure function of (generator, n, seed)") holds
by construction: each model below IS a Lean function of (parameters, n, seed) and, for the
wrappers, of the oracle function `seed ↦ bytes`, which is itself a function of the seed.
That the stateful Python (module-level `random.seed`, numpy generator objects) behaves like
these functions under repeated and interleaved calls is what the correspondence run checks.
`Urandom` and `SubsetSum` ignore the seed by design (`del seed`): their models are functions
of the `os.urandom` answers only.

D5: the pinned `TruncLcgRand.RandomBits` violates the range for `n % 8 ≠ 0`
(`truncLcg_range_fails`); `rng_test.testTruncLcg` pins such values, so the model carries both
variants.
-/
import ParanoidModel.Proofs.Rng
import ParanoidModel.Generated.Consts
namespace Paranoid.C20
open Paranoid Paranoid.Rng

/-! ## ★ range: `0 ≤ RandomBits(n) < 2^n` -/

/-- Urandom, for every answer of `os.urandom((n+7)//8)`. -/
theorem urandom_range (ba : List UInt8) (n : Nat) (h : ba.length = (n + 7) / 8) :
    urandom ba n < 2 ^ n := urandom_lt ba n h

/-- Shake128, for every XOF whose `digest(k)` has `k` bytes; any seed (also the `None` path,
which only changes the absorbed message). -/
theorem shake128_range (xof : List UInt8 → Nat → List UInt8) (hx : ∀ m k, (xof m k).length = k)
    (n : Nat) (seed : Int) : shake128 xof n seed < 2 ^ n := shake128_lt xof hx n seed

/-- Mt19937: exactly the contract of `random.getrandbits`. -/
theorem mt19937_range (getrandbits : Int → Nat → Nat) (hg : ∀ s k, getrandbits s k < 2 ^ k)
    (n : Nat) (seed : Int) : mt19937 getrandbits n seed < 2 ^ n := hg seed n

/-- NumpyRng (pcg64, philox, sfc64), for every `Generator.bytes(k)` of `k` bytes. -/
theorem numpy_range (bytesOf : Int → Nat → List UInt8) (hx : ∀ s k, (bytesOf s k).length = k)
    (n : Nat) (seed : Int) : numpyRng bytesOf n seed < 2 ^ n := numpyRng_lt bytesOf hx n seed

theorem xorShift128plus_range (n : Nat) (seed : Int) : xorShift128plus n seed < 2 ^ n :=
  xorShift128plusCore_lt _ _ n

theorem xorShift128plus_range_unseeded (x : Int) (y n : Nat) : xorShift128plusCore x y n < 2 ^ n :=
  xorShift128plusCore_lt x y n

theorem xorShiftStar_range (n : Nat) (seed : Int) : xorShiftStar n seed < 2 ^ n :=
  xorShiftStarCore_lt _ n

theorem xorShiftStar_range_unseeded (x n : Nat) : xorShiftStarCore x n < 2 ^ n :=
  xorShiftStarCore_lt x n

theorem xorwow_range (n : Nat) (seed : Int) : xorwow n seed < 2 ^ n := xorwowCore_lt _ _ n

theorem xorwow_range_unseeded (state ctr n : Nat) : xorwowCore state ctr n < 2 ^ n :=
  xorwowCore_lt state ctr n

theorem javaRandom_range (n : Nat) (seed : Int) : javaRandom n seed < 2 ^ n :=
  javaRandomCore_lt _ n

/-- LcgNist for every multiplier `a`; the core covers the `None` path. -/
theorem lcgNist_range (a n : Nat) (seed : Int) : lcgNist a n seed < 2 ^ n := lcgNistCore_lt a _ n

theorem lcgNist_range_unseeded (a seed n : Nat) : lcgNistCore a seed n < 2 ^ n :=
  lcgNistCore_lt a seed n

/-- Mwc for every parameter record (in particular every `Mwc(a, b)` the constructor accepts);
`seed` is also the state of the `None` path. -/
theorem mwc_range (p : MwcParams) (n : Nat) (seed : Int) (r : Nat) (h : mwc p n seed = .ok r) :
    r < 2 ^ n := by
  unfold mwc at h
  split at h
  · simp at h
  · simp only [Except.ok.injEq] at h; subst h; exact finishLE_lt _ n

/-- Lehmer for every `(a, mod, bits)`. -/
theorem lehmer_range (p : LehmerParams) (n : Nat) (seed : Int) (r : Nat)
    (h : lehmer p n seed = .ok r) : r < 2 ^ n := by
  unfold lehmer at h
  split at h
  · simp only [Except.ok.injEq] at h; subst h; exact Nat.two_pow_pos n
  · split at h
    · simp at h
    · split at h
      · simp at h
      · simp only [Except.ok.injEq] at h; subst h; exact finishLE_lt _ n

/-- SubsetSum for every generator list and every sequence of selections `os.urandom` may
return (whenever the oracle list suffices for the loop to end). -/
theorem subsetSum_range (bits n : Nat) (gens : List Nat) (sels : List (List UInt8)) (r : Nat)
    (h : subsetSum bits n gens sels = some r) : r < 2 ^ n := by
  unfold subsetSum at h
  split at h
  · simp at h
  · simp only [Option.some.injEq] at h; subst h; exact finishLE_lt _ n

/-! ### TruncLcgRand: dual-variant (D5) -/

/-- the range clause for `TruncLcgRand(k).RandomBits`, all `k ≥ 1` and all `(a, c)`. -/
def TruncLcgRange (v : Variant) : Prop :=
  ∀ (p : TruncLcgParams), 0 < p.outputSize → ∀ (n : Nat) (seed : Int) (r : Nat),
    truncLcg v p n seed = .ok r → r < 2 ^ n

/-- the repaired variant (`ba[-1] &= mask`) satisfies the range clause. -/
theorem truncLcg_range_repaired : TruncLcgRange .repaired := by
  intro p hp n seed r h
  rw [truncLcg_ok _ _ _ _ _ h]
  exact truncLcgCore_repaired_lt p hp n seed

/-- **D5**: the pinned code does not: `TruncLcgRand(20).RandomBits(63, seed=123456)` is the
64-bit number `0xA3A607D44D04A862` (the value pinned by `rng_test.testTruncLcg`). -/
theorem truncLcg_range_fails : ¬ TruncLcgRange .pinned := by
  intro h
  have h1 : truncLcg .pinned (truncLcgInit 20) 63 123456 = .ok 0xA3A607D44D04A862 := by
    have : truncLcgCore .pinned (truncLcgInit 20) 63 123456 = 0xA3A607D44D04A862 := by
      decide +kernel
    rw [← this]; rfl
  exact absurd (h _ (by decide) _ _ _ h1) (by decide)

/-- what does hold for the pinned code: whole bytes are never exceeded, and the range clause
holds whenever `n` is a multiple of 8. -/
theorem truncLcg_range_partial (p : TruncLcgParams) (hp : 0 < p.outputSize) (n : Nat) (seed : Int)
    (r : Nat) (h : truncLcg .pinned p n seed = .ok r) :
    r < 2 ^ (8 * ((n + 7) / 8)) ∧ (n % 8 = 0 → r < 2 ^ n) := by
  rw [truncLcg_ok _ _ _ _ _ h]
  exact truncLcgCore_pinned_lt p hp n seed

/-! ## ★ the emulations reproduce the generators they model -/

/-- **java_spec**: `JavaRandom().RandomBits(n, seed=seed)` is `new BigInteger(n, new
Random(seed))` of Spec/JavaRandom.lean (seed scrambling, 48-bit LCG, `next(32)` with its signed
`int`, `nextBytes` byte order with arithmetic `>>= 8`, first-byte mask, big-endian magnitude),
for every `n` and every integer seed (`(long)` = low 64 bits, two's complement). -/
theorem java_spec (n : Nat) (seed : Int) :
    javaRandom n seed = Spec.Java.bigInteger n (Spec.Java.Random.new (Spec.Java.toLong seed)) :=
  javaRandom_eq_spec n seed

/-- the repaired `TruncLcgRand.RandomBits(n, seed)` is `mpz_urandomb`-style: the low `n` bits
of the concatenation (first output least significant) of the high halves of successive LCG
states, each framed in `8·⌈k/8⌉` bits. -/
theorem truncLcg_spec_repaired (p : TruncLcgParams) (hp : 0 < p.outputSize) (n : Nat) (seed : Int) :
    truncLcgCore .repaired p n seed
      = Spec.TruncLcg.urandomb p.a p.c p.outputSize (8 * ((p.outputSize + 7) / 8))
          (((n + 7) / 8 + (p.outputSize + 7) / 8 - 1) / ((p.outputSize + 7) / 8)) n seed :=
  truncLcgCore_repaired_eq p hp n seed

/-- the pinned code coincides with the repaired one (hence with the stream) exactly when no
partial byte has to be masked. -/
theorem truncLcg_spec_pinned_partial (p : TruncLcgParams) (n : Nat) (h8 : n % 8 = 0) (seed : Int) :
    truncLcgCore .pinned p n seed = truncLcgCore .repaired p n seed :=
  truncLcgCore_pinned_eq p n h8 seed

/-! ## exactness of the byte-level model: no `to_bytes` / `bytearray` store can overflow -/

theorem to_bytes_fits_truncLcg (p : TruncLcgParams) (x : Int) :
    lcgNext p x >>> p.outputSize < 256 ^ ((p.outputSize + 7) / 8) := truncLcg_out_fits p x

/-- Shake128's `seed.to_bytes((seed.bit_length() + 8) // 8, "little", signed=True)`. -/
theorem to_bytes_fits_shakeSeed (seed : Int) :
    -(2 ^ (8 * ((bitLengthI seed + 8) / 8) - 1) : Int) ≤ seed ∧
      seed < (2 ^ (8 * ((bitLengthI seed + 8) / 8) - 1) : Int) := shake_seed_fits seed

theorem to_bytes_fits_java (s : Nat) : javaNext s >>> 16 < 256 ^ 4 := java_out_fits s

theorem store_fits_lcgNist (a seed : Nat) : (lcgNistByte a 8 0 seed 0).2 < 256 :=
  lcgNist_byte_fits a seed

theorem to_bytes_fits_mwc (a b : Nat) (p : MwcParams) (h : mwcInit a b = .ok p) (y : Int) :
    (y.fmod p.b).toNat < 256 ^ (p.outputBits / 8) :=
  mwc_out_fits p ((mwcInit_ok a b p h).2.1 ▸ (mwcInit_ok a b p h).2.2.2.1)
    (mwcInit_ok a b p h).2.2.2.2 y

theorem to_bytes_fits_lehmer (a m bits : Nat) (p : LehmerParams) (h : lehmerInit a m bits = .ok p)
    (hm : 0 < p.mod) (x : Int) :
    ((x % (p.mod : Int)).toNat <<< p.bits) / p.mod < 256 ^ (p.bits / 8) := by
  unfold lehmerInit at h
  split at h
  · simp at h
  · rename_i h8
    simp only [Except.ok.injEq] at h; subst h
    exact lehmer_out_fits _ hm (by simpa using h8) x

theorem to_bytes_fits_subsetSum (bits k : Nat) (h : subsetSumInit bits k = .ok (bits, k)) (s : Nat) :
    s &&& ((1 <<< bits) - 1) < 256 ^ (bits / 8) := by
  unfold subsetSumInit at h
  split at h
  · simp at h
  · rename_i h8
    exact subsetSum_out_fits bits s (by simpa using h8)

/-! ## the registry of the CURRENT /repo (Generated/Consts.lean) meets the hypotheses -/

def natList? (l : List Int) : Option (List Nat) :=
  if l.all (0 ≤ ·) then some (l.map Int.toNat) else none

/-- an entry of `rng.RNGS` is one of the modelled classes, with attributes that equal what the
modelled constructor computes and that satisfy the side conditions of the theorems above. -/
def entryOk (e : String × String × List Int) : Bool :=
  match e.2.1, natList? e.2.2 with
  | "Urandom", some [] => true
  | "Mt19937", some [] => true
  | "Shake128", some [] => true
  | "NumpyRng", some [] => true
  | "XorShift128plus", some [] => true
  | "XorShiftStar", some [] => true
  | "Xorwow", some [] => true
  | "JavaRandom", some [] => true
  | "LcgNist", some [_] => true
  | "TruncLcgRand", some [k, a, c] => decide (0 < k) && decide (truncLcgInit k = ⟨k, a, c⟩)
  | "Mwc", some [a, b, ab1, ob] =>
    (match mwcInit a b with
     | .ok p => decide (p.ab1 = (ab1 : Int)) && decide (p.outputBits = ob) && decide (0 < ob)
     | .error _ => false)
  | "Lehmer", some [a, m, bits] =>
    (match lehmerInit a m bits with
     | .ok _ => decide (0 < m) && decide (0 < bits)
     | .error _ => false)
  | "SubsetSum", some [bits, k] =>
    (match subsetSumInit bits k with
     | .ok _ => decide (0 < bits) && decide (0 < k)
     | .error _ => false)
  | _, _ => false

/-- every name of `rng.RNGS` as read from /repo by this run is covered by the theorems of this
file (a new class, a new attribute or an invalid parameter breaks this theorem). -/
theorem registry_covered : Consts.rngRegistry.all entryOk = true := by decide +kernel

/-! ## Non-vacuity and anchoring on values recorded upstream -/

-- the six values pinned by rng_test.testTruncLcg (63 bits requested); three are ≥ 2^63
example : truncLcgCore .pinned (truncLcgInit 16) 63 123456 = 0x61BD2B29909C8E52 := by decide +kernel
example : truncLcgCore .pinned (truncLcgInit 20) 63 123456 = 0xA3A607D44D04A862 := by decide +kernel
example : truncLcgCore .pinned (truncLcgInit 28) 63 123456 = 0xA5EC19808421926 := by decide +kernel
example : truncLcgCore .pinned (truncLcgInit 32) 63 123456 = 0xCB8975DC5D19C51C := by decide +kernel
example : truncLcgCore .pinned (truncLcgInit 64) 63 123456 = 0x567EE71B6DE6B032 := by decide +kernel
example : truncLcgCore .pinned (truncLcgInit 128) 63 123456 = 0xCC314CF91CC12913 := by decide +kernel
example : truncLcgCore .repaired (truncLcgInit 20) 63 123456 < 2 ^ 63 := by decide +kernel
example : truncLcg .repaired (truncLcgInit 20) 63 123456 = .ok (truncLcgCore .repaired (truncLcgInit 20) 63 123456) := rfl
-- outputs of the real java.util.Random recorded in rng_test.testJavaRandom, reproduced by the SPEC
example : Spec.Java.bigInteger 18 (Spec.Java.Random.new (Spec.Java.toLong 0x123456789ABD)) = 0xFFFB := by
  decide +kernel
example : Spec.Java.bigInteger 35 (Spec.Java.Random.new (Spec.Java.toLong 0x123456789ABD)) = 0x4FFFB5CF5 := by
  decide +kernel
example : Spec.Java.bigInteger 69 (Spec.Java.Random.new (Spec.Java.toLong 0x123456789ABD))
    = 0x1CFFFB5CF573588FF9 := by decide +kernel
example : Spec.Java.bigInteger 239 (Spec.Java.Random.new (Spec.Java.toLong 0x123456789ABD))
    = 0x1CFFFB5CF573588FF904B225B2C3AB76FAA1DD3C916E80D5DC770F555453 := by decide +kernel
-- regression values of rng_test reproduced by the model
example : lcgNist 950706376 160 0x0123456 = 0xE188F824E2F099626E91B7FF11B5FDFE1FAF1422 := by
  decide +kernel
example : xorShift128plus 160 0x012345678ABCDEF = 0x333A495B2B503B50A3C8F042002468ACF4D2A660 := by
  decide +kernel
example : xorShiftStar 160 0x012345678ABCDEF = 0x12E8FF6895348EC343D28DADE786D9E2B304BBA0 := by
  decide +kernel
example : xorwow 160 0x012345678ABCDEF = 0xE149F7EEB555653EE50F1BA9D36BAAB4F217131F := by
  decide +kernel
example : (mwcInit (2 ^ 64 - 742) (2 ^ 64)).toOption.map (fun p => (mwc p 160 0x012345678ABCDEF).toOption)
    = some (some 0xC5C2DFFCEF49F52EAA40F50ACB3C4D5E3E091D46) := by decide +kernel
example : (lehmer ⟨25096281518912105342191851917838718629, 2 ^ 128, 64⟩ 70 5).toOption.isSome = true := by
  decide +kernel
example : subsetSum 8 12 [3, 5] [[0], [3], [1]] = some 776 := by decide +kernel

end Paranoid.C20
