/-
Props/C20Total.lean — C20, TOTAL correctness of the parametrised generators
(`TruncLcgRand(k)`, `Mwc(a, b)`, `Lehmer(a, mod, bits)`, `SubsetSum(bits, k)`).

Props/C20.lean has the partial-correctness form `model = .ok r → r < 2^n` for these four classes
(review finding F14).  Here: `Rng.entryOk` (Model/RngTotal.lean) is a decidable predicate on the
constructor parameters, and

* `entry_total`: `entryOk e` ⇒ constructor and `RandomBits(n, seed)` RETURN a value `r`, for
  every `n` (also `n = 0`), every seed, and the range clause holds (`r < 2^n`; for the shipped
  `TruncLcgRand`, known finding D5, `r < 2^(8⌈n/8⌉)` and `r < 2^n` when `8 ∣ n`);
* `entry_not_ok`: `¬ entryOk e`, `n ≥ 1` ⇒ the outcome is `Rng.expectedFailure e`: the Python
  exception, or NON-TERMINATION;
* `entry_n_zero`: what `n = 0` does for the parameters that are not ok.

What the REAL code does (run against /repo HEAD through harness/shims.py, 2 s alarm;
/var/tmp/w/c19b/out/rng_probe.py), seeded and unseeded unless noted:

| parameters                              | `RandomBits(n ≥ 1)`            | `RandomBits(0)`            |
|-----------------------------------------|--------------------------------|----------------------------|
| `TruncLcgRand(0)` (also `-7 … -1`)      | `ZeroDivisionError`            | `ZeroDivisionError`        |
| `TruncLcgRand(k ≤ -8)`                  | `ValueError` / `IndexError`    | `ValueError`               |
| `Mwc(a, b)`, `b` not a power of 256     | constructor: `ValueError`      | (constructor)              |
| `Mwc(a, 1)`                             | `ZeroDivisionError`            | `ZeroDivisionError`        |
| `Mwc(a, 256^j)`, `j ≥ 1`, any int `a`   | value `< 2^n`                  | `0`                        |
| `Lehmer(bits % 8 ≠ 0)`                  | constructor: `ValueError`      | (constructor)              |
| `Lehmer(mod = 0)` (any `bits`)          | `ZeroDivisionError`            | `0` (unseeded: `ZeroDivisionError`) |
| `Lehmer(bits = 0)`, `mod ≠ 0`           | **does not terminate**         | `0`                        |
| `Lehmer(bits = -8k)`                    | `ValueError` (negative shift)  | `0`                        |
| `Lehmer(mod < 0)`, `Lehmer(a ≤ 0)`      | value `< 2^n`                  | `0`                        |
| `SubsetSum(bits % 8 ≠ 0, ·)`            | constructor: `ValueError`      | (constructor)              |
| `SubsetSum(bits, 0)`, `SubsetSum(bits, k<0)` | **does not terminate**    | `0`                        |
| `SubsetSum(0, k)`                       | **does not terminate**         | `0`                        |
| `SubsetSum(-8k, k' ≥ 1)`                | `ValueError` (`os.urandom(<0)`) | `ValueError`              |
| any generator, `n < 0`                  | `ValueError` / `IndexError` / `SystemError` (shake128) — or the value `0` for `urandom`, `shake128` (`n = -1`), `trunclcg*`/`java` (`n = -8`), `xorshift*`/`xorwow` (`n = -64`), and a 3-byte value for the numpy generators (`n = -8`) | |

The model's parameters and `n` are natural numbers; the rows with negative parameters / negative
`n` are NOT modelled (the property asks `n ≥ 1`; no registry entry has such parameters —
`C20.registry_covered`); they are probed on the real code by harness/corr/c20.py
(`boundary_probe`).  None of the non-terminating parameters is in the registry `rng.RNGS`.
-/
import ParanoidModel.Proofs.RngTotal
import ParanoidModel.Props.C20
namespace Paranoid.C20Total
open Paranoid Paranoid.Rng

/-! ## TruncLcgRand -/

/-- `TruncLcgRand(k)`, `k ≥ 1`: always returns; the shipped (pinned, D5) variant stays below
`2^(8⌈n/8⌉)` and below `2^n` when `8 ∣ n`; the repaired variant is below `2^n`. -/
theorem truncLcg_total (v : Variant) (k : Nat) (hk : 0 < k) (n : Nat) (seed : Int) :
    ∃ r, truncLcg v (truncLcgInit k) n seed = .ok r ∧ r < 2 ^ (8 * ((n + 7) / 8)) ∧
      (n % 8 = 0 → r < 2 ^ n) ∧ (v = .repaired → r < 2 ^ n) := by
  refine ⟨_, truncLcg_pos v k hk n seed, ?_⟩
  cases v with
  | pinned =>
    obtain ⟨h1, h2⟩ := truncLcgCore_pinned_lt (truncLcgInit k) hk n seed
    exact ⟨h1, h2, fun h => by cases h⟩
  | repaired =>
    have h := truncLcgCore_repaired_lt (truncLcgInit k) hk n seed
    refine ⟨?_, fun _ => h, fun _ => h⟩
    exact Nat.lt_of_lt_of_le h (Nat.pow_le_pow_right (by decide) (by omega))

/-- `TruncLcgRand(0).RandomBits(n)`: `ZeroDivisionError`, every `n`, seeded or not. -/
theorem truncLcg_zero_raises (v : Variant) (n : Nat) (seed : Int) :
    truncLcg v (truncLcgInit 0) n seed = .error .zeroDivision :=
  truncLcg_zero v n seed

/-! ## Mwc -/

/-- the constructor accepts exactly the powers of 256 (`b = 1 = 256^0` included) and raises
`ValueError` otherwise (`b = 0`: the negative shift count is a `ValueError` as well). -/
theorem mwc_constructor (a b : Nat) :
    ((∃ p, mwcInit a b = .ok p) ↔ ∃ j, b = 256 ^ j) ∧
      ((¬ ∃ j, b = 256 ^ j) → mwcInit a b = .error .valueError) :=
  ⟨mwcInit_isOk_iff a b, mwcInit_error a b⟩

/-- `Mwc(a, 256^j)`, `j ≥ 1`: always returns a value below `2^n`. -/
theorem mwc_total (a j : Nat) (hj : 1 ≤ j) (n : Nat) (seed : Int) :
    ∃ p r, mwcInit a (256 ^ j) = .ok p ∧ mwc p n seed = .ok r ∧ r < 2 ^ n := by
  have hm : mwc ⟨a, 256 ^ j, (a : Int) * (256 ^ j : Nat) - 1, 8 * j⟩ n seed
      = .ok (mwcCore ⟨a, 256 ^ j, (a : Int) * (256 ^ j : Nat) - 1, 8 * j⟩ n seed) := by
    unfold mwc
    rw [if_neg]
    show ¬ 8 * j = 0
    omega
  exact ⟨_, _, mwcInit_pow256 a j, hm, finishLE_lt _ n⟩

/-- `Mwc(a, 1)`: the constructor returns (`output_bits = 0`), `RandomBits` raises
`ZeroDivisionError` (`range((n + 0 - 1) // 0)`) for every `n`. -/
theorem mwc_b_one_raises (a n : Nat) (seed : Int) :
    ∃ p, mwcInit a 1 = .ok p ∧ mwc p n seed = .error .zeroDivision := by
  refine ⟨_, mwcInit_pow256 a 0, ?_⟩
  unfold mwc
  rw [if_pos]
  rfl

/-! ## Lehmer -/

theorem lehmer_constructor (a m bits : Nat) :
    (bits % 8 ≠ 0 → lehmerInit a m bits = .error .valueError) ∧
      (bits % 8 = 0 → lehmerInit a m bits = .ok ⟨a, m, bits⟩) := by
  unfold lehmerInit
  constructor
  · intro h; rw [if_pos h]
  · intro h; rw [if_neg (by omega)]

/-- `Lehmer(a, mod, bits)` with `bits` a positive multiple of 8 and `mod > 0`: returns a value
below `2^n` for every `n` and seed. -/
theorem lehmer_total (a m bits : Nat) (hb : 0 < bits) (hm : 0 < m) (n : Nat) (seed : Int) :
    ∃ r, lehmer ⟨a, m, bits⟩ n seed = .ok r ∧ lehmerOutcome ⟨a, m, bits⟩ n seed = .value r ∧
      r < 2 ^ n := by
  unfold lehmer lehmerOutcome
  by_cases hn : n = 0
  · rw [if_pos hn, if_pos hn]; exact ⟨0, rfl, rfl, Nat.two_pow_pos n⟩
  · rw [if_neg hn, if_neg hn]
    simp only
    rw [if_neg (by omega), if_neg (by omega), if_neg (by omega), if_neg (by omega)]
    exact ⟨_, rfl, rfl, finishLE_lt _ n⟩

/-- the model's `for` loop IS the code's `while 8 * len(ba) < n` loop: for accepted `bits > 0`
(`mod ≠ 0`) the literal loop ends after exactly `⌈n / bits⌉` iterations (any larger fuel gives the
same) with the bytes `lehmerCore` finishes. -/
theorem lehmer_while_is_for (p : LehmerParams) (h8 : p.bits % 8 = 0) (hb : 0 < p.bits) (n : Nat)
    (seed : Int) (fuel : Nat) (hf : (n + p.bits - 1) / p.bits ≤ fuel) :
    ∃ ba, lehmerWhile p n fuel seed [] = some ba ∧ finishLE ba n = lehmerCore p n seed :=
  ⟨_, lehmerWhile_eq_bytes p h8 hb n seed fuel hf, rfl⟩

/-- **non-termination**: `Lehmer(a, mod, bits=0)` (accepted by the constructor: `0 % 8 == 0`),
`mod ≠ 0`, `n ≥ 1`: after ANY number of iterations the guard `8 * len(ba) < n` is still true
(each iteration appends `output.to_bytes(0, "little") = b""`).
Run: `rng.Lehmer(bits=0).RandomBits(1, seed=5)` does not return. -/
theorem lehmer_bits_zero_never_terminates (a m : Nat) (n : Nat) (hn : 0 < n) (seed : Int)
    (fuel : Nat) : lehmerWhile ⟨a, m, 0⟩ n fuel seed [] = none :=
  lehmerWhile_bits_zero ⟨a, m, 0⟩ rfl n hn fuel seed

/-- the `Except`-valued model of Props/C20.lean and `lehmerOutcome` agree except at the
non-terminating parameters, where the former holds the placeholder `valueError`. -/
theorem lehmer_outcome_vs_model (p : LehmerParams) (n : Nat) (seed : Int) :
    (lehmerOutcome p n seed = .diverges ↔ 0 < n ∧ p.mod ≠ 0 ∧ p.bits = 0) ∧
      (lehmerOutcome p n seed ≠ .diverges →
        lehmerOutcome p n seed = Outcome.ofExcept (lehmer p n seed)) := by
  unfold lehmerOutcome lehmer
  by_cases hn : n = 0
  · simp [hn, Outcome.ofExcept]
  · by_cases hm : p.mod = 0
    · simp [hn, hm, Outcome.ofExcept]
    · by_cases hb : p.bits = 0
      · simp [hn, hm, hb]; omega
      · simp [hn, hm, hb, Outcome.ofExcept]

/-- `Lehmer(a, 0, bits)`, `n ≥ 1`: `ZeroDivisionError` (first `state * a % mod`), whatever
`bits` is. -/
theorem lehmer_mod_zero_raises (a bits n : Nat) (hn : 0 < n) (seed : Int) :
    lehmer ⟨a, 0, bits⟩ n seed = .error .zeroDivision ∧
      lehmerOutcome ⟨a, 0, bits⟩ n seed = .raises .zeroDivision := by
  have hn' : ¬ n = 0 := by omega
  unfold lehmer lehmerOutcome
  rw [if_neg hn', if_neg hn']
  exact ⟨rfl, rfl⟩

/-! ## SubsetSum -/

theorem subsetSum_constructor (bits k : Nat) :
    (bits % 8 ≠ 0 → subsetSumInit bits k = .error .valueError) ∧
      (bits % 8 = 0 → subsetSumInit bits k = .ok (bits, k)) := by
  unfold subsetSumInit
  constructor
  · intro h; rw [if_pos h]
  · intro h; rw [if_neg (by omega)]

/-- **termination criterion** (every `bits` with `8 ∣ bits`, every generator list, every finite
sequence of `os.urandom` answers of at least `(k + 7) // 8` bytes): the `while` loop ends within
the supplied answers iff at least `⌈n / bits⌉` of them have a non-zero subset sum; then the
result is below `2^n`. -/
theorem subsetSum_returns_iff (bits : Nat) (h8 : bits % 8 = 0) (n : Nat) (gens : List Nat)
    (sels : List (List UInt8)) (hs : ∀ sel ∈ sels, (gens.length + 7) / 8 ≤ sel.length) :
    ((∃ r, subsetSum bits n gens sels = some r) ↔ n ≤ bits * nonzeroSels gens sels) ∧
      ∀ r, subsetSum bits n gens sels = some r → r < 2 ^ n := by
  refine ⟨?_, fun r h => C20.subsetSum_range bits n gens sels r h⟩
  rw [← subsetSum_isSome_iff bits h8 n gens sels hs, Option.isSome_iff_exists]

/-- `SubsetSum(bits, k)` with `bits` a positive multiple of 8: returns a value below `2^n` as soon
as `os.urandom` answers `⌈n / bits⌉` times with a non-zero subset sum. -/
theorem subsetSum_total (bits : Nat) (h8 : bits % 8 = 0) (n : Nat) (gens : List Nat)
    (sels : List (List UInt8)) (hs : ∀ sel ∈ sels, (gens.length + 7) / 8 ≤ sel.length)
    (hsuf : n ≤ bits * nonzeroSels gens sels) :
    ∃ r, subsetSum bits n gens sels = some r ∧ r < 2 ^ n := by
  obtain ⟨h1, h2⟩ := subsetSum_returns_iff bits h8 n gens sels hs
  obtain ⟨r, hr⟩ := h1.mpr hsuf
  exact ⟨r, hr, h2 r hr⟩

/-- **non-termination**: for `n ≥ 1`, if `bits = 0`, or every generator is `0` (in particular
`k = 0`: no generators; and `bits = 0`: `int.from_bytes(os.urandom(0)) = 0`), or every selection
`os.urandom` returns is all-zero, then after ANY finite number of `os.urandom` answers the
`while len(ba) * 8 < n` loop is still running (every iteration hits `continue`, or appends `b""`).
Run: `rng.SubsetSum(256, 0).RandomBits(1)` and `rng.SubsetSum(0, 4).RandomBits(1)` do not
return. -/
theorem subsetSum_never_ends (bits : Nat) (h8 : bits % 8 = 0) (n : Nat) (hn : 0 < n)
    (gens : List Nat) (sels : List (List UInt8))
    (hs : ∀ sel ∈ sels, (gens.length + 7) / 8 ≤ sel.length)
    (h : bits = 0 ∨ (∀ g ∈ gens, g = 0) ∨ ∀ sel ∈ sels, ∀ x ∈ sel, x = 0) :
    subsetSum bits n gens sels = none ∧ subsetSumOutcome bits n gens sels = .diverges := by
  have hnone : subsetSum bits n gens sels = none := by
    cases hr : subsetSum bits n gens sels with
    | none => rfl
    | some r =>
      exfalso
      have hle := ((subsetSum_returns_iff bits h8 n gens sels hs).1).mp ⟨r, hr⟩
      rcases h with h | h
      · rw [h] at hle; simp at hle; omega
      · rw [nonzeroSels_zero_of gens sels hs h] at hle; omega
  refine ⟨hnone, ?_⟩
  unfold subsetSumOutcome
  rw [hnone]

/-! ## all four classes: `entryOk` -/

/-- what `RandomBits(n ≥ 1)` does for parameters that are NOT ok. -/
def expectedFailure : Entry → Outcome
  | .truncLcg _ => .raises .zeroDivision
  | .mwc _ b =>
    if 1 <<< (bitLength b - 1) ≠ b ∨ bitLength b % 8 ≠ 1 then .raises .valueError
    else .raises .zeroDivision
  | .lehmer _ mod bits =>
    if bits % 8 ≠ 0 then .raises .valueError
    else if mod = 0 then .raises .zeroDivision
    else .diverges
  | .subsetSum bits _ => if bits % 8 ≠ 0 then .raises .valueError else .diverges

/-- **total correctness**: for parameters with `entryOk`, constructor + `RandomBits(n, seed)`
return a value — for EVERY `n` (also 0), every seed, both `TruncLcgRand` variants, and for
`SubsetSum` every oracle of the shape `os.urandom` produces that answers often enough with a
non-zero subset sum — and the value satisfies the range clause (for the shipped `TruncLcgRand`,
D5, only up to the byte boundary unless `8 ∣ n`).
SCOPE (second review, L30): `seed : Int` is a GIVEN integer seed, i.e. the call
`RandomBits(n, seed=<int>)`.  The unseeded `Lehmer.RandomBits` first draws a seed in a rejection loop
(`while True: … if math.gcd(seed, self.mod) == 1: break`) that is NOT modelled; it ends with
probability 1 for `mod ≥ 1` but not for every `os.urandom` (Props/C20TotalLink.lean header). -/
theorem entry_total (v : Variant) (e : Entry) (n : Nat) (seed : Int) (o : Oracle)
    (hok : entryOk e = true) (hshape : oracleShape e o) (hsuf : oracleSuffices e n o) :
    ∃ r, run v e n seed o = .value r ∧
      (r < 2 ^ n ∨ (∃ k, e = .truncLcg k ∧ v = .pinned ∧ n % 8 ≠ 0 ∧ r < 2 ^ (8 * ((n + 7) / 8)))) := by
  cases e with
  | truncLcg k =>
    have hk : 0 < k := by simpa [entryOk] using hok
    obtain ⟨r, hr, h1, h2, h3⟩ := truncLcg_total v k hk n seed
    refine ⟨r, by simp [run, hr, Outcome.ofExcept], ?_⟩
    cases v with
    | repaired => exact Or.inl (h3 rfl)
    | pinned =>
      by_cases h8 : n % 8 = 0
      · exact Or.inl (h2 h8)
      · exact Or.inr ⟨k, rfl, rfl, h8, h1⟩
  | mwc a b =>
    obtain ⟨j, hj, rfl⟩ := (mwc_entryOk_iff b).mp (by simpa [entryOk] using hok)
    obtain ⟨p, r, hp, hr, hlt⟩ := mwc_total a j hj n seed
    exact ⟨r, by simp [run, hp, hr, Outcome.ofExcept], Or.inl hlt⟩
  | lehmer a m bits =>
    simp only [entryOk, Bool.and_eq_true, decide_eq_true_eq] at hok
    obtain ⟨⟨h8, hb⟩, hm⟩ := hok
    obtain ⟨r, -, hr, hlt⟩ := lehmer_total a m bits hb hm n seed
    exact ⟨r, by simp [run, (lehmer_constructor a m bits).2 h8, hr], Or.inl hlt⟩
  | subsetSum bits k =>
    simp only [entryOk, Bool.and_eq_true, decide_eq_true_eq] at hok
    obtain ⟨⟨h8, hb⟩, hk⟩ := hok
    obtain ⟨hlen, -, hsel⟩ := hshape
    obtain ⟨r, hr, hlt⟩ := subsetSum_total bits h8 n o.gens o.sels
      (fun sel h => by rw [hlen, hsel sel h]) hsuf
    exact ⟨r, by simp [run, (subsetSum_constructor bits k).2 h8, subsetSumOutcome, hr], Or.inl hlt⟩

/-- **the complement**: for parameters WITHOUT `entryOk` and `n ≥ 1`, constructor +
`RandomBits(n, seed)` never return a value: the outcome is exactly `expectedFailure e` — a
`ValueError` of the constructor, a `ZeroDivisionError` of `RandomBits`, or non-termination
(`Lehmer(bits=0)`, `SubsetSum(bits, 0)`, `SubsetSum(0, k)`; for `SubsetSum` with every oracle of
the right shape, however long).  For `Lehmer` the outcome `.diverges` is the DEFINITION of
`lehmerOutcome` at `bits = 0`; its link to the literal loop is `C20TotalLink.lehmer_diverges_iff`. -/
theorem entry_not_ok (v : Variant) (e : Entry) (n : Nat) (hn : 0 < n) (seed : Int) (o : Oracle)
    (hnot : entryOk e = false) (hshape : oracleShape e o) :
    run v e n seed o = expectedFailure e := by
  cases e with
  | truncLcg k =>
    have hk : k = 0 := by simpa [entryOk] using hnot
    subst hk
    simp [run, truncLcg_zero, Outcome.ofExcept, expectedFailure]
  | mwc a b =>
    simp only [expectedFailure]
    by_cases hc : 1 <<< (bitLength b - 1) ≠ b ∨ bitLength b % 8 ≠ 1
    · rw [if_pos hc]
      have : mwcInit a b = .error .valueError := by unfold mwcInit; rw [if_pos hc]
      simp [run, this]
    · rw [if_neg hc]
      have hb1 : b = 1 := by
        simp only [not_or, Decidable.not_not] at hc
        simp only [entryOk, hc.1, hc.2, decide_true, Bool.true_and, decide_eq_false_iff_not,
          Decidable.not_not] at hnot
        exact hnot
      subst hb1
      obtain ⟨p, hp, hr⟩ := mwc_b_one_raises a n seed
      simp [run, hp, hr, Outcome.ofExcept]
  | lehmer a m bits =>
    simp only [expectedFailure]
    by_cases h8 : bits % 8 ≠ 0
    · rw [if_pos h8]
      simp [run, (lehmer_constructor a m bits).1 h8]
    · rw [if_neg h8]
      have h8' : bits % 8 = 0 := by omega
      simp only [run, (lehmer_constructor a m bits).2 h8']
      by_cases hm : m = 0
      · subst hm
        rw [if_pos rfl]
        exact (lehmer_mod_zero_raises a bits n hn seed).2
      · rw [if_neg hm]
        have hb : bits = 0 := by
          simp only [entryOk, h8', decide_true, Bool.true_and, Bool.and_eq_false_iff,
            decide_eq_false_iff_not] at hnot
          omega
        subst hb
        unfold lehmerOutcome
        rw [if_neg (by omega), if_neg hm, if_pos rfl]
  | subsetSum bits k =>
    simp only [expectedFailure]
    by_cases h8 : bits % 8 ≠ 0
    · rw [if_pos h8]
      simp [run, (subsetSum_constructor bits k).1 h8]
    · rw [if_neg h8]
      have h8' : bits % 8 = 0 := by omega
      simp only [run, (subsetSum_constructor bits k).2 h8']
      obtain ⟨hlen, hlt, hsel⟩ := hshape
      have hdeg : bits = 0 ∨ k = 0 := by
        simp only [entryOk, h8', decide_true, Bool.true_and, Bool.and_eq_false_iff,
          decide_eq_false_iff_not] at hnot
        omega
      refine (subsetSum_never_ends bits h8' n hn o.gens o.sels
        (fun sel h => by rw [hlen, hsel sel h]) ?_).2
      rcases hdeg with hb | hk
      · exact Or.inl hb
      · right; left
        intro g hg
        have : o.gens = [] := List.eq_nil_of_length_eq_zero (by rw [hlen, hk])
        rw [this] at hg
        cases hg

/-- `n = 0` with parameters that are not ok: `TruncLcgRand(0)` and `Mwc(a, 1)` still raise
`ZeroDivisionError`, constructor errors are constructor errors, and a constructed `Lehmer` /
`SubsetSum` returns `0` (the `while` loop is not entered; seeded call — the unseeded
`Lehmer(mod=0)` raises `ZeroDivisionError` while drawing its seed). -/
theorem entry_n_zero (v : Variant) (e : Entry) (seed : Int) (o : Oracle) (hnot : entryOk e = false) :
    run v e 0 seed o =
      match e with
      | .lehmer _ _ bits => if bits % 8 ≠ 0 then .raises .valueError else .value 0
      | .subsetSum bits _ => if bits % 8 ≠ 0 then .raises .valueError else .value 0
      | e => expectedFailure e := by
  cases e with
  | truncLcg k =>
    have hk : k = 0 := by simpa [entryOk] using hnot
    subst hk
    simp [run, truncLcg_zero, Outcome.ofExcept, expectedFailure]
  | mwc a b =>
    simp only [expectedFailure]
    by_cases hc : 1 <<< (bitLength b - 1) ≠ b ∨ bitLength b % 8 ≠ 1
    · rw [if_pos hc]
      have : mwcInit a b = .error .valueError := by unfold mwcInit; rw [if_pos hc]
      simp [run, this]
    · rw [if_neg hc]
      have hb1 : b = 1 := by
        simp only [not_or, Decidable.not_not] at hc
        simp only [entryOk, hc.1, hc.2, decide_true, Bool.true_and, decide_eq_false_iff_not,
          Decidable.not_not] at hnot
        exact hnot
      subst hb1
      obtain ⟨p, hp, hr⟩ := mwc_b_one_raises a 0 seed
      simp [run, hp, hr, Outcome.ofExcept]
  | lehmer a m bits =>
    simp only
    by_cases h8 : bits % 8 ≠ 0
    · rw [if_pos h8]; simp [run, (lehmer_constructor a m bits).1 h8]
    · rw [if_neg h8]
      simp [run, (lehmer_constructor a m bits).2 (by omega), lehmerOutcome]
  | subsetSum bits k =>
    simp only
    by_cases h8 : bits % 8 ≠ 0
    · rw [if_pos h8]; simp [run, (subsetSum_constructor bits k).1 h8]
    · rw [if_neg h8]
      simp only [run, (subsetSum_constructor bits k).2 (by omega), subsetSumOutcome]
      have : subsetSum bits 0 o.gens o.sels = some 0 := by
        unfold subsetSum
        cases o.sels <;> simp [subsetSumLoop, finishLE, fromLE]
      rw [this]

/-- every parametrised entry of the CURRENT registry `rng.RNGS` satisfies `entryOk` (so none of
the raising / non-terminating parameters is bundled). -/
def registryEntry (e : String × String × List Int) : Option Entry :=
  match e.2.1, C20.natList? e.2.2 with
  | "TruncLcgRand", some [k, _, _] => some (.truncLcg k)
  | "Mwc", some [a, b, _, _] => some (.mwc a b)
  | "Lehmer", some [a, m, bits] => some (.lehmer a m bits)
  | "SubsetSum", some [bits, k] => some (.subsetSum bits k)
  | _, _ => none

theorem registry_entries_ok :
    Consts.rngRegistry.all (fun e => match registryEntry e with
      | some en => entryOk en
      | none => true) = true := by decide +kernel

/-! ## Non-vacuity -/

example : entryOk (.truncLcg 20) = true ∧ entryOk (.mwc (2 ^ 64 - 742) (2 ^ 64)) = true ∧
    entryOk (.lehmer 25096281518912105342191851917838718629 (2 ^ 128) 64) = true ∧
    entryOk (.subsetSum 256 16) = true := by decide +kernel
example : entryOk (.truncLcg 0) = false ∧ entryOk (.mwc 5 1) = false ∧ entryOk (.mwc 5 2) = false ∧
    entryOk (.lehmer 3 0 8) = false ∧ entryOk (.lehmer 3 7 0) = false ∧ entryOk (.lehmer 3 7 12) = false ∧
    entryOk (.subsetSum 256 0) = false ∧ entryOk (.subsetSum 0 4) = false := by decide +kernel
example : run .pinned (.lehmer 3 7 0) 1 5 ⟨[], []⟩ = .diverges ∧
    run .pinned (.lehmer 3 0 0) 1 5 ⟨[], []⟩ = .raises .zeroDivision ∧
    run .pinned (.subsetSum 256 0) 1 5 ⟨[], [[], [], []]⟩ = .diverges ∧
    run .pinned (.subsetSum 0 4) 9 5 ⟨[0, 0, 0, 0], [[0xf], [0x3]]⟩ = .diverges ∧
    run .pinned (.mwc 5 1) 8 5 ⟨[], []⟩ = .raises .zeroDivision ∧
    run .pinned (.truncLcg 0) 8 5 ⟨[], []⟩ = .raises .zeroDivision := by decide +kernel
example : run .pinned (.subsetSum 8 2) 12 0 ⟨[3, 5], [[0], [3], [1]]⟩ = .value 776 ∧
    nonzeroSels [3, 5] [[0], [3], [1]] = 2 := by decide +kernel
example : lehmerWhile ⟨7, 10, 8⟩ 20 3 5 [] = some (lehmerBytes ⟨7, 10, 8⟩ 3 5) ∧
    lehmerWhile ⟨7, 10, 8⟩ 20 2 5 [] = none := by decide +kernel

end Paranoid.C20Total
