/-
Props/C20TotalLink.lean — C20: the outcome `.diverges` / `.value` of Model/RngTotal.lean LINKED to the
literal `while` loops (second review, L29), and the scope of `C20Total.entry_total` (L30).

`Rng.lehmerOutcome` answers `.diverges` BY DEFINITION for `bits = 0` (`if p.bits = 0 then .diverges`), and
`C20Total.entry_not_ok` / `lehmer_outcome_vs_model` only unfold that definition.  The content — that the Python
`while 8 * len(ba) < n` loop really does not end there, and really ends elsewhere — is
`C20Total.lehmer_bits_zero_never_terminates` / `lehmer_while_is_for`, which are about `Rng.lehmerWhile` (the
loop with fuel) and were not connected to `lehmerOutcome`.  Here, for every parameter set the constructor
accepts (`bits % 8 = 0`) with `mod ≠ 0` (for `mod = 0` the first iteration raises; `lehmerWhile` does not
model that), every `n` and every integer seed:

* `lehmer_diverges_iff`  `lehmerOutcome … = .diverges`  ↔  for EVERY fuel the loop is still running;
* `lehmer_value_iff`     `lehmerOutcome … = .value r`   ↔  for SOME fuel the loop has ended with bytes `ba` and
                         `r` is the code's tail (`int.from_bytes`, mask) of `ba`;
* `lehmer_outcome_cases` one of the two, never `.raises`.

For `SubsetSum` the loop consumes `os.urandom` answers, so the model has no fuel: `.diverges` is defined as
"the loop is still running when the SUPPLIED answers are used up" (`subsetSum … = none`).
* `subsetSum_diverges_iff`  `.diverges` ↔ fewer than ⌈n / bits⌉ of the supplied answers have a non-zero subset
                            sum (so for a non-degenerate generator `.diverges` only means "oracle list too
                            short", not non-termination);
* `subsetSum_diverges_for_ever`  in the degenerate cases (`bits = 0`, or all generators 0, e.g. `k = 0`) the
                            outcome is `.diverges` for EVERY continuation of the answer list — genuine
                            non-termination whatever `os.urandom` returns.

SCOPE of `C20Total.entry_total` (L30): `Rng.run` takes an INTEGER SEED.  It covers
`G(params).RandomBits(n, seed=<int>)` only.  The unseeded call of `Lehmer` first draws its seed in a
rejection loop (`while True: seed = urandom % mod; if gcd(seed, mod) == 1: break`), which is NOT modelled:
for `mod ≥ 1` it ends with probability 1 (each draw is accepted with probability ≈ φ(mod)/mod > 0; for
`mod = 1` the first draw `0` is accepted), but no theorem says so, and it never ends if `os.urandom` keeps
returning non-units.  After the draw the code is the seeded code.  `TruncLcgRand` / `Mwc` draw an unseeded
seed without a loop; `SubsetSum` ignores `seed`.  Measured on /repo HEAD: `Lehmer(3, 7, 8).RandomBits(16)`,
`Lehmer().RandomBits(100)`, `Lehmer(3, 1, 8).RandomBits(16)` (unseeded) return; harness/corr/c20.py compares
seeded calls with the model and checks only range / termination of unseeded ones.
-/
import ParanoidModel.Props.C20Total
namespace Paranoid.C20TotalLink
open Paranoid Paranoid.Rng

/-- ★ `.diverges` means: the literal loop is still running after ANY number of iterations. -/
theorem lehmer_diverges_iff (p : LehmerParams) (h8 : p.bits % 8 = 0) (hm : p.mod ≠ 0) (n : Nat)
    (seed : Int) :
    lehmerOutcome p n seed = .diverges ↔ ∀ fuel, lehmerWhile p n fuel seed [] = none := by
  rw [(C20Total.lehmer_outcome_vs_model p n seed).1]
  constructor
  · rintro ⟨hn, _, hb⟩ fuel
    exact lehmerWhile_bits_zero p hb n hn fuel seed
  · intro hall
    by_cases hb : p.bits = 0
    · refine ⟨?_, hm, hb⟩
      by_contra hn
      have h0 : n = 0 := by omega
      have := hall 0
      rw [h0] at this
      simp [lehmerWhile] at this
    · exfalso
      have := lehmerWhile_eq_bytes p h8 (by omega) n seed _ (Nat.le_refl _)
      rw [hall] at this
      cases this

/-- ★ `.value r` means: the literal loop ends (for some, hence every larger, number of allowed
iterations) and `r` is `int.from_bytes(ba, "little")`, masked to `n` bits if `8·len(ba) ≠ n`. -/
theorem lehmer_value_iff (p : LehmerParams) (h8 : p.bits % 8 = 0) (hm : p.mod ≠ 0) (n : Nat)
    (seed : Int) (r : Nat) :
    lehmerOutcome p n seed = .value r ↔
      ∃ fuel ba, lehmerWhile p n fuel seed [] = some ba ∧ finishLE ba n = r := by
  constructor
  · intro h
    unfold lehmerOutcome at h
    by_cases hn : n = 0
    · rw [if_pos hn] at h
      cases h
      exact ⟨0, [], by simp [lehmerWhile, hn], by subst hn; decide⟩
    · rw [if_neg hn, if_neg hm] at h
      by_cases hb : p.bits = 0
      · rw [if_pos hb] at h; cases h
      · rw [if_neg hb] at h
        cases h
        exact ⟨_, _, lehmerWhile_eq_bytes p h8 (by omega) n seed _ (Nat.le_refl _), rfl⟩
  · rintro ⟨fuel, ba, hw, hr⟩
    have hnd : lehmerOutcome p n seed ≠ .diverges := fun hd => by
      rw [(lehmer_diverges_iff p h8 hm n seed).mp hd fuel] at hw; cases hw
    unfold lehmerOutcome at hnd ⊢
    by_cases hn : n = 0
    · rw [if_pos hn]
      subst hn
      have : ba = [] := by
        cases fuel <;> simpa [lehmerWhile] using hw.symm
      subst this
      rw [← hr]; decide
    · rw [if_neg hn, if_neg hm] at hnd ⊢
      by_cases hb : p.bits = 0
      · rw [if_pos hb] at hnd; exact absurd rfl hnd
      · rw [if_neg hb]
        let K := (n + p.bits - 1) / p.bits
        have h1 := lehmerWhile_eq_bytes p h8 (by omega) n seed (max fuel K) (Nat.le_max_right _ _)
        have h2 := lehmerWhile_mono_le p n seed [] ba fuel (max fuel K) (Nat.le_max_left _ _) hw
        rw [h1] at h2
        cases h2
        rw [← hr]; rfl

/-- for accepted parameters with `mod ≠ 0` the outcome is a value or divergence, never an exception. -/
theorem lehmer_outcome_cases (p : LehmerParams) (hm : p.mod ≠ 0) (n : Nat) (seed : Int) :
    lehmerOutcome p n seed = .diverges ∨ ∃ r, lehmerOutcome p n seed = .value r := by
  unfold lehmerOutcome
  by_cases hn : n = 0
  · rw [if_pos hn]; exact Or.inr ⟨0, rfl⟩
  · rw [if_neg hn, if_neg hm]
    by_cases hb : p.bits = 0
    · rw [if_pos hb]; exact Or.inl rfl
    · rw [if_neg hb]; exact Or.inr ⟨_, rfl⟩

/-! ## SubsetSum -/

/-- ★ what `.diverges` means for `SubsetSum`: the supplied `os.urandom` answers contain fewer than
⌈n / bits⌉ selections with a non-zero subset sum (`n > bits · #nonzero`), i.e. the `while` loop is still
running when they are used up. -/
theorem subsetSum_diverges_iff (bits : Nat) (h8 : bits % 8 = 0) (n : Nat) (gens : List Nat)
    (sels : List (List UInt8)) (hs : ∀ sel ∈ sels, (gens.length + 7) / 8 ≤ sel.length) :
    subsetSumOutcome bits n gens sels = .diverges ↔ bits * nonzeroSels gens sels < n := by
  have h := (C20Total.subsetSum_returns_iff bits h8 n gens sels hs).1
  unfold subsetSumOutcome
  cases hr : subsetSum bits n gens sels with
  | some r =>
    have := h.mp ⟨r, hr⟩
    simp only [reduceCtorEq, false_iff]
    omega
  | none =>
    simp only [true_iff]
    by_contra hc
    obtain ⟨r, hr'⟩ := h.mpr (by omega)
    rw [hr] at hr'; cases hr'

/-- ★ genuine non-termination: with `bits = 0` or all generators zero (`k = 0` included) and `n ≥ 1`, the
outcome is `.diverges` after the supplied answers AND after every continuation of them. -/
theorem subsetSum_diverges_for_ever (bits : Nat) (h8 : bits % 8 = 0) (n : Nat) (hn : 0 < n)
    (gens : List Nat) (sels : List (List UInt8)) (h : bits = 0 ∨ ∀ g ∈ gens, g = 0)
    (more : List (List UInt8))
    (hs : ∀ sel ∈ sels ++ more, (gens.length + 7) / 8 ≤ sel.length) :
    subsetSumOutcome bits n gens (sels ++ more) = .diverges :=
  (C20Total.subsetSum_never_ends bits h8 n hn gens (sels ++ more) hs
    (h.elim Or.inl (fun h' => Or.inr (Or.inl h')))).2

/-! ## Non-vacuity -/

-- bits = 8: three iterations for n = 20; `.value` and the loop agree
-- (real code: `rng.Lehmer(7, 10, 8).RandomBits(20, seed=5)` = 32896)
example : lehmerOutcome ⟨7, 10, 8⟩ 20 5 = .value 32896 ∧ finishLE (lehmerBytes ⟨7, 10, 8⟩ 3 5) 20 = 32896 ∧
    lehmerWhile ⟨7, 10, 8⟩ 20 3 5 [] = some (lehmerBytes ⟨7, 10, 8⟩ 3 5) ∧
    (⟨7, 10, 8⟩ : LehmerParams).bits % 8 = 0 ∧ (⟨7, 10, 8⟩ : LehmerParams).mod ≠ 0 := by decide +kernel
-- bits = 0
example : lehmerOutcome ⟨7, 10, 0⟩ 1 5 = .diverges ∧ lehmerWhile ⟨7, 10, 0⟩ 1 50 5 [] = none := by
  decide +kernel
-- SubsetSum: two non-zero answers of 8 bits are too few for n = 17, enough for n = 16
example : subsetSumOutcome 8 17 [3, 5] [[0], [3], [1]] = .diverges ∧
    subsetSumOutcome 8 16 [3, 5] [[0], [3], [1]] = .value 776 ∧ nonzeroSels [3, 5] [[0], [3], [1]] = 2 := by
  decide +kernel

end Paranoid.C20TotalLink
