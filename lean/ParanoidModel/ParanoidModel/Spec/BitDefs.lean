/-
Spec/BitDefs.lean — the one-line mathematical definitions property C15 refers to.
Everything is phrased over `Nat.testBit` (bit `i` of the bit string `s` is `s.testBit i`; bit 0 is
the first bit) and `List Bool`.  No Mathlib, no reference to the model: these are the
specifications the model functions are proved equal to in Props/C15.lean.
-/
namespace Paranoid.BitDefs

/-- the bit string of length `n` held in `s`, first bit first. -/
def bitsOf (s n : Nat) : List Bool := (List.range n).map s.testBit

/-- `#{ i < n | p i }`. -/
def countBelow (n : Nat) (p : Nat → Bool) : Nat := (List.range n).countP p

/-- `Σ_{j<m} f j · 2^j`: the number whose bits are `f 0, f 1, …, f (m-1)`. -/
def ofBits (f : Nat → Bool) : Nat → Nat
  | 0 => 0
  | m + 1 => ofBits f m + (f m).toNat * 2 ^ m

/-- population count of an `n`-bit string: `Σ_{i<n} bit i`. -/
def popcountDef (s n : Nat) : Nat := countBelow n s.testBit

/-- number of maximal constant blocks of a list. -/
def blockCount : List Bool → Nat
  | [] => 0
  | [_] => 1
  | a :: b :: t => (if a = b then 0 else 1) + blockCount (b :: t)

/-- number of runs of the `n`-bit string `s`: its number of maximal constant blocks. -/
def runsDef (s n : Nat) : Nat := blockCount (bitsOf s n)

/-- `s` contains `k` consecutive one bits (starting at some position `i`). -/
def HasRun (s k : Nat) : Prop := ∃ i, ∀ j, j < k → s.testBit (i + j) = true

/-- `k` is the length of the longest run of ones of `s`. -/
def IsLongestRun (s k : Nat) : Prop := HasRun s k ∧ ∀ k', HasRun s k' → k' ≤ k

/-- all of the `m` bits starting at `i` are one. -/
def allOnes (s m i : Nat) : Bool := (List.range m).all (fun j => s.testBit (i + j))

/-- number of (possibly overlapping) positions `i < n` at which a run of `m` ones starts. -/
def overlapDef (s m n : Nat) : Nat := countBelow n (allOnes s m)

/-- the `m` bits of `s` starting at position `i` (no wrap-around): `(s >>> i) % 2^m`. -/
def window (s m i : Nat) : Nat := ofBits (fun j => s.testBit (i + j)) m

/-- the `m` bits of the cyclic `n`-bit string `s` starting at position `i`. -/
def cyclicWindow (s n m i : Nat) : Nat := ofBits (fun j => s.testBit ((i + j) % n)) m

/-- pattern frequency: `#{ i | window i = p }`; with wrap-around over all `n` cyclic start
positions, without over the `n - m + 1` positions at which the window fits. -/
def freqDef (s n m : Nat) (wrap : Bool) (p : Nat) : Nat :=
  if wrap then countBelow n (fun i => cyclicWindow s n m i == p)
  else countBelow (n - m + 1) (fun i => window s m i == p)

/-- the list of all `m`-bit sub-sequences (in start-position order). -/
def subSeqDef (s n m : Nat) (wrap : Bool) : List Nat :=
  if wrap then (List.range n).map (cyclicWindow s n m)
  else (List.range (n - m + 1)).map (window s m)

/-- bit reversal of an `n`-bit string: bit `i ↦ bit (n-1-i)`. -/
def reverseDef (s n : Nat) : Nat := ofBits (fun i => s.testBit (n - 1 - i)) n

/-- ±1 expansion of an `n`-bit string. -/
def bitsDef (s n : Nat) : List Int := (List.range n).map (fun i => if s.testBit i then 1 else -1)

/-- non-overlapping `m`-bit blocks, first block = least significant bits, incomplete last block
dropped: block `i` is `(s >>> (i*m)) % 2^m`. -/
def splitDef (s n m : Nat) : List Nat := (List.range (n / m)).map (fun i => (s >>> (i * m)) % 2 ^ m)

/-- `res` is the interleaved scattering of `s` into `m` streams: stream `i` holds the bits
`i, i+m, i+2m, …` of `s`. -/
def IsScatter (s m : Nat) (res : List Nat) : Prop :=
  res.length = m ∧ ∀ i (h : i < res.length) (t : Nat), res[i].testBit t = s.testBit (i + m * t)

/-- stream `i` of the scattering, computed over `k` bits per stream. -/
def scatterDef (s m k : Nat) : List Nat :=
  (List.range m).map (fun i => ofBits (fun t => s.testBit (i + m * t)) k)

/-- all GF(2)-linear combinations of the rows (one entry per subset of the rows). -/
def spanList : List Nat → List Nat
  | [] => [0]
  | r :: rest => spanList rest ++ (spanList rest).map (r ^^^ ·)

/-- `v` is a GF(2)-linear combination of the rows. -/
def InSpan (rows : List Nat) (v : Nat) : Prop := v ∈ spanList rows

/-- number of distinct elements of a list. -/
def distinctCount : List Nat → Nat
  | [] => 0
  | a :: t => (if a ∈ t then 0 else 1) + distinctCount t

/-- number of distinct vectors in the GF(2) row span; `r` is the rank iff `2^r = spanSize`. -/
def spanSize (rows : List Nat) : Nat := distinctCount (spanList rows)

end Paranoid.BitDefs
