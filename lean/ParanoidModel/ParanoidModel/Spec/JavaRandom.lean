/-
Spec/JavaRandom.lean — `java.util.Random` and `new BigInteger(numBits, rnd)` as Java defines
them, independent of the Python emulation in rng.py.

Java's `long`, `int`, `byte` are two's-complement 64/32/8-bit integers: `BitVec 64/32/8`.
`*`, `+` wrap, `^`, `&` are bitwise, `>>>` is the logical and `>>` the arithmetic right shift,
`(int)` / `(byte)` keep the low bits (`setWidth`).

Sources transcribed:
* Java SE API, class `java.util.Random`:
  - `Random(long seed)` / `setSeed`: "`(seed ^ 0x5DEECE66DL) & ((1L << 48) - 1)`";
  - `next(int bits)`: "`seed = (seed * 0x5DEECE66DL + 0xBL) & ((1L << 48) - 1)` and returning
    `(int)(seed >>> (48 - bits))`";
  - `nextInt()`: "`return next(32)`";
  - `nextBytes(byte[] bytes)`:
    "`for (int i = 0; i < bytes.length; )
        for (int rnd = nextInt(), n = Math.min(bytes.length - i, 4); n-- > 0; rnd >>= 8)
          bytes[i++] = (byte)rnd;`".
* OpenJDK `java.math.BigInteger(int numBits, Random rnd)` → `randomBits(numBits, rnd)`
  (the API text only promises a uniform value in `[0, 2^numBits)`; the byte order is that of
  the reference implementation):
    `int numBytes = (int)(((long)numBits+7)/8);  byte[] randomBits = new byte[numBytes];
     if (numBytes > 0) { rnd.nextBytes(randomBits); int excessBits = 8*numBytes - numBits;
                         randomBits[0] &= (byte)((1 << (8-excessBits)) - 1); }`
  and the result is the non-negative integer with big-endian magnitude `randomBits`.
-/
namespace Paranoid.Spec.Java

abbrev JLong := BitVec 64
abbrev JInt := BitVec 32
abbrev JByte := BitVec 8

def multiplier : JLong := 0x5DEECE66D#64
def addend : JLong := 0xB#64
/-- `(1L << 48) - 1`. -/
def mask : JLong := (1#64 <<< 48) - 1#64

/-- `(seed ^ 0x5DEECE66DL) & ((1L << 48) - 1)`. -/
def initialScramble (seed : JLong) : JLong := (seed ^^^ multiplier) &&& mask

/-- the generator object: its only field is the `AtomicLong seed`. -/
structure Random where
  seed : JLong

/-- `new Random(seed)`. -/
def Random.new (seed : JLong) : Random := ⟨initialScramble seed⟩

/-- the state after one call of `next`. -/
def Random.advance (r : Random) : Random := ⟨(r.seed * multiplier + addend) &&& mask⟩

/-- the value returned by `next(bits)`: `(int)(nextseed >>> (48 - bits))`. -/
def Random.nextValue (r : Random) (bits : Nat) : JInt :=
  (r.advance.seed >>> (48 - bits)).setWidth 32

/-- `nextInt()` = `next(32)`. -/
def Random.nextInt (r : Random) : JInt := r.nextValue 32

/-- inner loop of `nextBytes`: `k` times `bytes[i++] = (byte)rnd; rnd >>= 8` (arithmetic shift
of an `int`). -/
def intBytes : Nat → JInt → List JByte
  | 0, _ => []
  | k + 1, rnd => rnd.setWidth 8 :: intBytes k (rnd.sshiftRight 8)

/-- `nextBytes(bytes)` for `bytes.length = len` (`fuel ≥ len` outer iterations at most):
the bytes written, in array order. -/
def Random.nextBytes : Nat → Nat → Random → List JByte
  | 0, _, _ => []
  | fuel + 1, len, r =>
    if len = 0 then []
    else intBytes (min len 4) r.nextInt ++ Random.nextBytes fuel (len - min len 4) r.advance

/-- `randomBits[0] &= m`. -/
def andFirst (m : JByte) : List JByte → List JByte
  | [] => []
  | b :: bs => (b &&& m) :: bs

/-- `BigInteger.randomBits(numBits, rnd)`. -/
def randomBits (numBits : Nat) (rnd : Random) : List JByte :=
  if (numBits + 7) / 8 > 0 then
    andFirst (((1#32 <<< (8 - (8 * ((numBits + 7) / 8) - numBits))) - 1#32).setWidth 8)
      (rnd.nextBytes ((numBits + 7) / 8) ((numBits + 7) / 8))
  else []

/-- value of a big-endian magnitude (bytes read as unsigned). -/
def magnitude (bytes : List JByte) : Nat := bytes.foldl (fun acc b => acc * 256 + b.toNat) 0

/-- `new BigInteger(numBits, rnd)`. -/
def bigInteger (numBits : Nat) (rnd : Random) : Nat := magnitude (randomBits numBits rnd)

/-- `(long) seed` for a mathematical integer: two's complement, low 64 bits. -/
def toLong (seed : Int) : JLong := BitVec.ofInt 64 seed

end Paranoid.Spec.Java
