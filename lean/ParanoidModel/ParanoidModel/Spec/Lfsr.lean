/-
Spec/Lfsr.lean — the mathematical notions property C14 refers to.  Definitions only, no Mathlib
(so that the native driver can also run them).

* `generates taps s`      : the LFSR with feedback taps `c_1 … c_L` (`L = taps.length`) produces
                            the finite bit sequence `s` from its first `L` bits;
* `IsShortestLfsr s L`    : `L` is the least length of an LFSR generating `s`;
* `shortestLfsr s`        : the same number, computed by brute force over all `2^L` tap vectors
                            for `L = 0, 1, …` (usable for short `s` only);
* `textbookL s`           : the textbook Berlekamp–Massey recursion (Massey 1969) with connection
                            polynomials `C`, `B`, length `L`, where the discrepancy is visibly
                            `d = s_n ⊕ Σ_{i=1..L} C_i s_{n-i}`.
-/
namespace Paranoid.Lfsr

/-- `Σ_{i<n} f i` over GF(2). -/
def xsum : Nat → (Nat → Bool) → Bool
  | 0, _ => false
  | n + 1, f => xsum n f ^^ f n

/-- `s_k` (bits beyond the end read as 0; every use below stays inside the sequence). -/
def sbit (s : List Bool) (k : Nat) : Bool := s.getD k false

/-- coefficient `p_i` of a GF(2) polynomial given by its coefficient list `p_0, p_1, …`. -/
def coef (p : List Bool) (i : Nat) : Bool := p.getD i false

/-! ### Linear feedback shift registers -/

/-- the bit an LFSR with taps `c_1 … c_L` (`taps = [c_1, …, c_L]`) outputs at position `k ≥ L`:
`Σ_{i=1..L} c_i s_{k-i}`. -/
def feedback (taps : List Bool) (σ : Nat → Bool) (k : Nat) : Bool :=
  xsum taps.length (fun i => coef taps i && σ (k - 1 - i))

/-- The LFSR of length `L = taps.length` with taps `c_1 … c_L` generates `s`:
`s_k = Σ_{i=1..L} c_i s_{k-i}` for every `L ≤ k < |s|`. -/
def generates (taps s : List Bool) : Prop :=
  ∀ k, taps.length ≤ k → k < s.length → sbit s k = feedback taps (sbit s) k

/-- Boolean version of `generates`. -/
def generatesB (taps s : List Bool) : Bool :=
  (List.range s.length).all fun k =>
    decide (k < taps.length) || (sbit s k == feedback taps (sbit s) k)

/-- `L` is the length of the shortest LFSR generating `s`. -/
def IsShortestLfsr (s : List Bool) (L : Nat) : Prop :=
  (∃ taps : List Bool, taps.length = L ∧ generates taps s) ∧
    ∀ taps : List Bool, generates taps s → L ≤ taps.length

/-- all bit lists of length `n` (extension at the END, the direction in which
Berlekamp–Massey reads a sequence). -/
def allSeqs : Nat → List (List Bool)
  | 0 => [[]]
  | n + 1 => (allSeqs n).flatMap fun s => [s ++ [false], s ++ [true]]

/-- some LFSR of length `L` generates `s` (search over all `2^L` tap vectors). -/
def hasLfsrB (L : Nat) (s : List Bool) : Bool := (allSeqs L).any fun t => generatesB t s

/-- least `L' ∈ [L, L + fuel)` with `p L'`, else `L + fuel`. -/
def findFirst (p : Nat → Bool) : Nat → Nat → Nat
  | 0, L => L
  | fuel + 1, L => if p L then L else findFirst p fuel (L + 1)

/-- Length of the shortest LFSR generating `s`, by BRUTE FORCE (exponential; for short `s`).
An LFSR of length `|s|` always generates `s`, so the search stops there at the latest. -/
def shortestLfsr (s : List Bool) : Nat := findFirst (fun L => hasLfsrB L s) s.length 0

/-! ### Textbook Berlekamp–Massey over GF(2) -/

/-- `p + q` for coefficient lists. -/
def polyAdd : List Bool → List Bool → List Bool
  | [], q => q
  | p, [] => p
  | a :: p, b :: q => (a ^^ b) :: polyAdd p q

/-- `X^x · p`. -/
def polyShift (x : Nat) (p : List Bool) : List Bool := List.replicate x false ++ p

/-- State after reading `s_0 … s_{n-1}`: current connection polynomial `C` (`C_0 = 1`) of the
LFSR of length `L`; `B` the connection polynomial before the last length change; `x` the
number of steps since then (`C ← C + X^x·B` is the correction). -/
structure TB where
  C : List Bool
  B : List Bool
  L : Nat
  x : Nat
  deriving DecidableEq, Repr

def tbInit : TB := { C := [true], B := [true], L := 0, x := 1 }

/-- the discrepancy `d_n = s_n ⊕ Σ_{i=1..L} C_i s_{n-i}` (the summation index below is
`i - 1`, so the term reads `C_{i+1} · s_{n-1-i}`). -/
def disc (σ : Nat → Bool) (st : TB) (n : Nat) : Bool :=
  σ n ^^ xsum st.L (fun i => coef st.C (i + 1) && σ (n - 1 - i))

/-- one step of Berlekamp–Massey (reads `s_n`). -/
def tbStep (σ : Nat → Bool) (n : Nat) (st : TB) : TB :=
  if disc σ st n then
    if 2 * st.L ≤ n then
      { C := polyAdd st.C (polyShift st.x st.B), B := st.C, L := n + 1 - st.L, x := 1 }
    else
      { C := polyAdd st.C (polyShift st.x st.B), B := st.B, L := st.L, x := st.x + 1 }
  else { C := st.C, B := st.B, L := st.L, x := st.x + 1 }

/-- state after `n` steps. -/
def tbRun (σ : Nat → Bool) : Nat → TB
  | 0 => tbInit
  | n + 1 => tbStep σ n (tbRun σ n)

/-- The linear complexity the textbook algorithm assigns to `s`. -/
def textbookL (s : List Bool) : Nat := (tbRun (sbit s) s.length).L

/-- the bit sequence `s_0 … s_{len-1}` encoded by `s = Σ 2^i s_i` (the encoding used by
`berlekamp_massey.py`); bits of `s` at positions `≥ len` are ignored. -/
def bitsOf (s len : Nat) : List Bool := (List.range len).map s.testBit

end Paranoid.Lfsr
