/-
Spec/Rfc6979.lean — the bit-string definitions of RFC 6979 sections 2.3.1–2.3.4 that
property C09 refers to, written over explicit bit sequences (`List Bool`, most significant
bit first).  Specification only: nothing here is executed by the driver.  No Mathlib.
-/
namespace Paranoid.Rfc6979

/-- big-endian value of a bit sequence (first bit = most significant). -/
def ofBits (l : List Bool) : Nat := l.foldl (fun acc b => 2 * acc + b.toNat) 0

/-- the `blen`-bit big-endian bit sequence of `h` (all of `h` when `h < 2^blen`). -/
def toBits (h blen : Nat) : List Bool :=
  (List.range blen).map fun i => h.testBit (blen - 1 - i)

/-- an octet string read as a bit sequence: every octet contributes its 8 bits, most
significant first (RFC 6979 section 2.3.1). -/
def octetsToBits (o : List Nat) : List Bool := o.flatMap fun x => toBits x 8

/-- `bits2int` (RFC 6979 section 2.3.2): "The sequence is first truncated or expanded to
length qlen: if qlen < blen, then the qlen leftmost bits are kept, and subsequent bits are
discarded; otherwise, qlen-blen bits (of value zero) are added to the left of the sequence.
The resulting sequence is then converted to an integer value using the big-endian
convention." -/
def bits2int (qlen : Nat) (b : List Bool) : Nat :=
  ofBits (if qlen < b.length then b.take qlen else List.replicate (qlen - b.length) false ++ b)

/-- the reduction inside `bits2octets` (section 2.3.4): `z2 = z1 mod q`, which RFC 6979 notes
"can be computed with a simple conditional subtraction" (`z2 = z1 - q` if that is
non-negative, else `z2 = z1`). -/
def reduceOnce (z1 q : Nat) : Nat := if z1 < q then z1 else z1 - q

end Paranoid.Rfc6979
