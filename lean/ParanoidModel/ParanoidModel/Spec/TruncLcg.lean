/-
Spec/TruncLcg.lean — the truncated linear congruential generator that `TruncLcgRand`
emulates ("like gmp_randinit_lc_2exp() in GMP"), as far as GMP documents it.

GMP manual, "Random State Initialization":
  `gmp_randinit_lc_2exp (state, a, c, m2exp)`: "Initialize state with a linear congruential
  algorithm X = (a*X + c) mod 2^m2exp. The low bits of X in this algorithm are not very random
  […] For this reason only the high half of each X is actually used. When a random number of
  more than m2exp/2 bits is to be generated, multiple iterations of the recurrence are used and
  the results concatenated."
  `gmp_randinit_lc_2exp_size (state, size)`: "a, c and m2exp are selected from a table, chosen
  so that size bits (or more) of each X will be used, i.e. m2exp/2 >= size."
`mpz_urandomb (rop, state, n)` returns the low `n` bits of that concatenation, first output
least significant.

What is NOT GMP: the multipliers (rng.py takes L'Ecuyer's / Steele–Vigna's tables, `c = 1`),
and the framing — rng.py stores every output in whole bytes, so for an output size that is
not a multiple of 8 each output occupies `8·⌈size/8⌉` bits of the stream (zero padded)
where GMP would pack `size` bits. The `chunk` parameter below makes the framing explicit.
-/
namespace Paranoid.Spec.TruncLcg

/-- `X ← (a·X + c) mod 2^(2·size)` (`m2exp = 2·size`). -/
def next (a c size : Nat) (x : Int) : Nat := ((a * x + c) % (2 ^ (2 * size) : Nat)).toNat

/-- the output of one iteration: the high half of the new `X`. -/
def output (a c size : Nat) (x : Int) : Nat := next a c size x / 2 ^ size

/-- concatenation of `k` successive outputs starting from state `x`, first output least
significant, `chunk` bits per output. -/
def stream (a c size chunk : Nat) : Nat → Int → Nat
  | 0, _ => 0
  | k + 1, x => output a c size x + 2 ^ chunk * stream a c size chunk k (next a c size x)

/-- a random number of `n` bits from `k` iterations (`k·chunk ≥ n`). -/
def urandomb (a c size chunk k n : Nat) (seed : Int) : Nat := stream a c size chunk k seed % 2 ^ n

end Paranoid.Spec.TruncLcg
