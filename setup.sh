#!/bin/sh
# Offline setup: regenerate constants from /repo, build the Lean library (model, proofs,
# property theorems) and the native model driver. Files on disk only.
set -e
cd "$(dirname "$0")"
mkdir -p build evidence replays
/venv/bin/python harness/setup_gen.py
cd lean/ParanoidModel
lake build ParanoidModel driver
